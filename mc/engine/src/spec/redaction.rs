//! Appendix A.1: the redaction algorithm per room version, as data.

use serde_json::{Map, Value};

pub const ALWAYS_KEPT_TOP: [&str; 12] = [
    "event_id", "type", "room_id", "sender", "state_key", "content", "hashes", "signatures",
    "depth", "prev_events", "auth_events", "origin_server_ts",
];

/// Is the top-level key kept by redaction in room version `v` (1..=11)?
pub fn top_level_kept(v: u8, key: &str) -> bool {
    if ALWAYS_KEPT_TOP.contains(&key) {
        return true;
    }
    match key {
        "origin" | "membership" | "prev_state" => v <= 10,
        _ => false,
    }
}

#[derive(Clone, Copy, Debug, PartialEq, Eq)]
pub enum Keep {
    No,
    Yes,
    /// kept but reduced to its `signed` key (m.room.member third_party_invite from v11)
    SignedOnly,
}

/// Is the content key kept for events of type `ty` in room version `v`?
pub fn content_kept(v: u8, ty: &str, key: &str) -> Keep {
    let yes = |b: bool| if b { Keep::Yes } else { Keep::No };
    match ty {
        "m.room.member" => match key {
            "membership" => Keep::Yes,
            "join_authorised_via_users_server" => yes(v >= 9),
            "third_party_invite" => {
                if v >= 11 {
                    Keep::SignedOnly
                } else {
                    Keep::No
                }
            }
            _ => Keep::No,
        },
        "m.room.create" => {
            if v >= 11 {
                Keep::Yes
            } else {
                yes(key == "creator")
            }
        }
        "m.room.join_rules" => match key {
            "join_rule" => Keep::Yes,
            "allow" => yes(v >= 8),
            _ => Keep::No,
        },
        "m.room.power_levels" => match key {
            "ban" | "events" | "events_default" | "kick" | "redact" | "state_default" | "users"
            | "users_default" => Keep::Yes,
            "invite" => yes(v >= 11),
            _ => Keep::No,
        },
        "m.room.history_visibility" => yes(key == "history_visibility"),
        "m.room.aliases" => yes(key == "aliases" && v <= 5),
        "m.room.redaction" => yes(key == "redacts" && v >= 11),
        _ => Keep::No,
    }
}

/// Every content key the spec names for `ty` in any version (the "key universe").
pub fn content_universe(ty: &str) -> &'static [&'static str] {
    match ty {
        "m.room.member" => &[
            "membership", "join_authorised_via_users_server", "third_party_invite", "displayname",
            "avatar_url", "is_direct", "reason",
        ],
        "m.room.create" => &["creator", "room_version", "m.federate", "predecessor", "type"],
        "m.room.join_rules" => &["join_rule", "allow"],
        "m.room.power_levels" => &[
            "ban", "events", "events_default", "kick", "redact", "state_default", "users",
            "users_default", "invite", "notifications",
        ],
        "m.room.history_visibility" => &["history_visibility"],
        "m.room.aliases" => &["aliases"],
        "m.room.redaction" => &["redacts", "reason"],
        "m.room.message" => &["body", "msgtype", "m.relates_to"],
        "m.room.server_acl" => &["allow", "deny", "allow_ip_literals"],
        "m.room.name" => &["name"],
        _ => &["body"],
    }
}

#[derive(Clone, Debug, PartialEq)]
pub enum RefRedact {
    /// the redacted event
    Must(Map<String, Value>),
    /// the spec allows (ruma documents) an error here
    MustErr,
    /// the spec is silent (DESIGN §1.3): not compared
    Unspecified,
}

/// Reference redaction of a whole event.
pub fn redact_event(v: u8, event: &Map<String, Value>) -> RefRedact {
    let ty = match event.get("type") {
        Some(Value::String(s)) => s.clone(),
        _ => return RefRedact::MustErr,
    };
    let mut out = Map::new();
    for (k, val) in event {
        if !top_level_kept(v, k) {
            continue;
        }
        if k == "content" {
            match val {
                Value::Object(c) => match redact_content(v, &ty, c) {
                    RefRedact::Must(c) => {
                        out.insert(k.clone(), Value::Object(c));
                    }
                    other => return other,
                },
                _ => return RefRedact::MustErr,
            }
        } else {
            out.insert(k.clone(), val.clone());
        }
    }
    RefRedact::Must(out)
}

/// Reference redaction of a content object.
pub fn redact_content(v: u8, ty: &str, content: &Map<String, Value>) -> RefRedact {
    let mut out = Map::new();
    for (k, val) in content {
        match content_kept(v, ty, k) {
            Keep::No => {}
            Keep::Yes => {
                out.insert(k.clone(), val.clone());
            }
            Keep::SignedOnly => match val {
                Value::Object(tpi) => match tpi.get("signed") {
                    Some(s) => {
                        let mut m = Map::new();
                        m.insert("signed".into(), s.clone());
                        out.insert(k.clone(), Value::Object(m));
                    }
                    // no `signed`: absent or `{}` both accepted
                    None => return RefRedact::Unspecified,
                },
                _ => return RefRedact::Unspecified,
            },
        }
    }
    RefRedact::Must(out)
}

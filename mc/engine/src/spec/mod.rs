//! Reference models transcribed from the Matrix specification (DESIGN.md Appendix A).
//! Nothing in here imports ruma; everything works on `serde_json::Value`.
pub mod redaction;

//! Shared machinery for the bounded exhaustive checks: argument parsing, counters,
//! outcome tallies (vacuity guard), known-finding matching, replay files, evidence
//! writer, panic capture, a sharded parallel driver and small enumeration helpers.
//!
//! Exit codes: 0 held, 1 violation (with `VIOLATION property=<id> replay=<path>`),
//! 2 machinery failure (never a verdict).

use std::{
    cell::RefCell,
    collections::{BTreeMap, HashMap},
    fs,
    hash::{Hash, Hasher},
    io::Write as _,
    panic::{self, AssertUnwindSafe, UnwindSafe},
    path::PathBuf,
    sync::{
        atomic::{AtomicU64, AtomicUsize, Ordering::Relaxed},
        Mutex, Once,
    },
    time::Instant,
};

use serde_json::{json, Map, Value};

pub mod spec;

pub const VERIF_ROOT: &str = "/verif";

/// Where evidence and replay files go: `$VERIF_OUT` (used when a check is pointed at a scratch
/// tree, see tools/check_tree.sh) or /verif.
pub fn out_root() -> String {
    std::env::var("VERIF_OUT").unwrap_or_else(|_| VERIF_ROOT.to_owned())
}

#[derive(Clone, Copy, Debug, PartialEq, Eq)]
pub enum Tier {
    Quick,
    Thorough,
}

impl Tier {
    pub fn as_str(self) -> &'static str {
        match self {
            Tier::Quick => "quick",
            Tier::Thorough => "thorough",
        }
    }
    pub fn is_thorough(self) -> bool {
        self == Tier::Thorough
    }
    /// pick a bound by tier
    pub fn pick<T>(self, quick: T, thorough: T) -> T {
        match self {
            Tier::Quick => quick,
            Tier::Thorough => thorough,
        }
    }
}

#[derive(Clone, Debug)]
pub struct Args {
    pub tier: Tier,
    pub seed: u64,
    pub replay: Option<PathBuf>,
    pub extra: Vec<String>,
}

pub fn parse_args() -> Args {
    let mut tier = match std::env::var("VERIF_TIER").ok().as_deref() {
        Some("thorough") => Tier::Thorough,
        _ => Tier::Quick,
    };
    let seed = std::env::var("VERIF_SEED").ok().and_then(|s| s.parse::<u64>().ok()).unwrap_or(0);
    let mut replay = None;
    let mut extra = vec![];
    let mut it = std::env::args().skip(1);
    while let Some(a) = it.next() {
        match a.as_str() {
            "--tier" => {
                tier = match it.next().as_deref() {
                    Some("thorough") => Tier::Thorough,
                    Some("quick") => Tier::Quick,
                    other => machinery_error(&format!("bad --tier {other:?}")),
                }
            }
            "--replay" => replay = Some(PathBuf::from(it.next().unwrap_or_default())),
            _ => extra.push(a),
        }
    }
    Args { tier, seed, replay, extra }
}

pub fn machinery_error(msg: &str) -> ! {
    eprintln!("MACHINERY-ERROR: {msg}");
    std::process::exit(2)
}

// ---------------------------------------------------------------------------------------
// panic capture

thread_local! {
    static LAST_PANIC: RefCell<Option<String>> = const { RefCell::new(None) };
}
static HOOK: Once = Once::new();

/// Install a silent panic hook that records `file:line: message` per thread.
pub fn install_panic_hook() {
    HOOK.call_once(|| {
        panic::set_hook(Box::new(|info| {
            let loc = info
                .location()
                .map(|l| {
                    let f = l.file();
                    // keep path relative to the repo so signatures are stable
                    // (also when the checked tree is a scratch worktree, see tools/check_tree.sh)
                    let f = match f.find("/crates/ruma") {
                        Some(i) => &f[i + 1..],
                        None => f.strip_prefix("/repo/").unwrap_or(f),
                    };
                    format!("{}:{}", f, l.line())
                })
                .unwrap_or_else(|| "?".into());
            let msg = if let Some(s) = info.payload().downcast_ref::<&str>() {
                (*s).to_owned()
            } else if let Some(s) = info.payload().downcast_ref::<String>() {
                s.clone()
            } else {
                "<non-string panic>".to_owned()
            };
            LAST_PANIC.with(|p| *p.borrow_mut() = Some(format!("{loc}: {msg}")));
        }));
    });
}

/// A caught panic: where and what.
#[derive(Clone, Debug)]
pub struct Panicked {
    /// `crates/x/src/y.rs:123: message`
    pub text: String,
}

impl Panicked {
    /// `crates/x/src/y.rs:123`
    pub fn location(&self) -> &str {
        match self.text.find(": ") {
            Some(i) => &self.text[..i],
            None => &self.text,
        }
    }
    /// location without the line number, for signatures that survive unrelated edits
    pub fn file(&self) -> &str {
        let l = self.location();
        match l.rfind(':') {
            Some(i) => &l[..i],
            None => l,
        }
    }
}

/// Run `f`, turning a panic into `Err(Panicked)`.
pub fn catch<T>(f: impl FnOnce() -> T) -> Result<T, Panicked> {
    install_panic_hook();
    LAST_PANIC.with(|p| *p.borrow_mut() = None);
    match panic::catch_unwind(AssertUnwindSafe(f)) {
        Ok(v) => Ok(v),
        Err(_) => {
            let text =
                LAST_PANIC.with(|p| p.borrow_mut().take()).unwrap_or_else(|| "?: panic".into());
            Err(Panicked { text })
        }
    }
}

pub fn catch_unwind_safe<T>(f: impl FnOnce() -> T + UnwindSafe) -> Result<T, Panicked> {
    catch(f)
}

// ---------------------------------------------------------------------------------------
// known findings

#[derive(Clone, Debug)]
pub struct KnownFinding {
    pub property: String,
    pub sig: String,
    pub status: String, // "open" | "fixed"
    pub what: String,
}

fn load_known_findings(id: &str) -> Vec<KnownFinding> {
    // $VERIF_KNOWN_FINDINGS: another list (harness self-tests of the resync path only)
    let path = std::env::var("VERIF_KNOWN_FINDINGS").unwrap_or_else(|_| format!("{VERIF_ROOT}/known_findings.jsonl"));
    let Ok(text) = fs::read_to_string(&path) else { return vec![] };
    let mut out = vec![];
    for (n, line) in text.lines().enumerate() {
        let line = line.trim();
        if line.is_empty() || line.starts_with('#') {
            continue;
        }
        // `fixed: property=<id> <commit> <what>` lines are documentation; they suppress nothing
        if line.starts_with("fixed:") {
            continue;
        }
        let v: Value = match serde_json::from_str(line) {
            Ok(v) => v,
            Err(e) => machinery_error(&format!("{path}:{}: {e}", n + 1)),
        };
        let g = |k: &str| v.get(k).and_then(Value::as_str).unwrap_or("").to_owned();
        if g("property") == id {
            out.push(KnownFinding {
                property: g("property"),
                sig: g("sig"),
                status: g("status"),
                what: g("what"),
            });
        }
    }
    out
}

// ---------------------------------------------------------------------------------------
// tallies and report

/// Per-thread counters, merged into the report at the end of a shard.
#[derive(Default)]
pub struct Tally {
    pub states: u64,
    pub transitions: u64,
    pub unspecified: u64,
    pub nontrivial: u64,
    outcomes: HashMap<(&'static str, String), u64>,
    samples: Vec<Value>,
}

impl Tally {
    pub fn new() -> Self {
        Self::default()
    }
    #[inline]
    pub fn outcome(&mut self, family: &'static str, outcome: &str) {
        if let Some(c) = self.outcomes.get_mut(&(family, outcome.to_owned())) {
            *c += 1;
        } else {
            self.outcomes.insert((family, outcome.to_owned()), 1);
        }
    }
    /// add `n` observations at once (for hot loops that count locally)
    pub fn outcome_n(&mut self, family: &'static str, outcome: &str, n: u64) {
        if n > 0 {
            *self.outcomes.entry((family, outcome.to_owned())).or_insert(0) += n;
        }
    }
    /// keep at most a few samples per thread
    pub fn sample(&mut self, f: impl FnOnce() -> Value) {
        if self.samples.len() < 4 {
            self.samples.push(f());
        }
    }
}

#[derive(Clone, Debug)]
struct Viol {
    count: u64,
    detail: String,
    case: Value,
}

pub struct Report {
    pub id: String,
    pub level: &'static str,
    pub tier: Tier,
    pub seed: u64,
    start: Instant,
    states: AtomicU64,
    transitions: AtomicU64,
    unspecified: AtomicU64,
    nontrivial: AtomicU64,
    traces: AtomicU64,
    outcomes: Mutex<BTreeMap<String, BTreeMap<String, u64>>>,
    samples: Mutex<Vec<Value>>,
    violations: Mutex<BTreeMap<String, Viol>>,
    extra: Mutex<Map<String, Value>>,
    assumptions: Mutex<Vec<String>>,
    rule: Mutex<String>,
    capped: Mutex<Vec<String>>,
    required_families: Mutex<Vec<(String, usize)>>,
    known: Vec<KnownFinding>,
    cap_s: f64,
    cap_reported: std::sync::atomic::AtomicBool,
}

impl Report {
    pub fn new(id: &str, level: &'static str, args: &Args) -> Self {
        install_panic_hook();
        Report {
            id: id.to_owned(),
            level,
            tier: args.tier,
            seed: args.seed,
            start: Instant::now(),
            states: AtomicU64::new(0),
            transitions: AtomicU64::new(0),
            unspecified: AtomicU64::new(0),
            nontrivial: AtomicU64::new(0),
            traces: AtomicU64::new(0),
            outcomes: Mutex::new(BTreeMap::new()),
            samples: Mutex::new(vec![]),
            violations: Mutex::new(BTreeMap::new()),
            extra: Mutex::new(Map::new()),
            assumptions: Mutex::new(vec![]),
            rule: Mutex::new(String::new()),
            capped: Mutex::new(vec![]),
            required_families: Mutex::new(vec![]),
            known: load_known_findings(id),
            cap_s: std::env::var("VERIF_CAP_S")
                .ok()
                .and_then(|s| s.parse().ok())
                .unwrap_or(match args.tier {
                    Tier::Quick => 55.0,
                    Tier::Thorough => 870.0,
                }),
            cap_reported: std::sync::atomic::AtomicBool::new(false),
        }
    }

    pub fn merge(&self, t: Tally) {
        self.states.fetch_add(t.states, Relaxed);
        self.transitions.fetch_add(t.transitions, Relaxed);
        self.unspecified.fetch_add(t.unspecified, Relaxed);
        self.nontrivial.fetch_add(t.nontrivial, Relaxed);
        if !t.outcomes.is_empty() {
            let mut o = self.outcomes.lock().unwrap();
            for ((fam, out), c) in t.outcomes {
                *o.entry(fam.to_owned()).or_default().entry(out).or_default() += c;
            }
        }
        if !t.samples.is_empty() {
            let mut s = self.samples.lock().unwrap();
            for v in t.samples {
                if s.len() < 64 {
                    s.push(v);
                }
            }
        }
    }

    pub fn add_states(&self, n: u64) {
        self.states.fetch_add(n, Relaxed);
    }
    pub fn add_transitions(&self, n: u64) {
        self.transitions.fetch_add(n, Relaxed);
    }
    pub fn add_traces(&self, n: u64) {
        self.traces.fetch_add(n, Relaxed);
    }
    pub fn outcome(&self, family: &str, outcome: &str) {
        *self
            .outcomes
            .lock()
            .unwrap()
            .entry(family.to_owned())
            .or_default()
            .entry(outcome.to_owned())
            .or_default() += 1;
    }
    pub fn sample(&self, v: Value) {
        let mut s = self.samples.lock().unwrap();
        if s.len() < 64 {
            s.push(v);
        }
    }
    pub fn set_rule(&self, r: &str) {
        *self.rule.lock().unwrap() = r.to_owned();
    }
    pub fn assume(&self, a: &str) {
        self.assumptions.lock().unwrap().push(a.to_owned());
    }
    pub fn set(&self, key: &str, v: Value) {
        self.extra.lock().unwrap().insert(key.to_owned(), v);
    }
    /// A time / size cap was hit: the run is not exhaustive for this part.
    pub fn capped(&self, what: &str) {
        self.capped.lock().unwrap().push(what.to_owned());
    }
    /// Vacuity guard: the family must show at least `min` distinct outcomes.
    pub fn require_outcomes(&self, family: &str, min: usize) {
        self.required_families.lock().unwrap().push((family.to_owned(), min));
    }

    /// Is `sig` an open known finding for this property?
    pub fn is_known_open(&self, sig: &str) -> bool {
        self.known.iter().any(|k| k.status == "open" && sig_matches(&k.sig, sig))
    }

    /// Record a violation. `sig` classifies it (entry point + input class); `case` is the
    /// replayable input.
    pub fn violation(&self, sig: &str, detail: impl FnOnce() -> String, case: impl FnOnce() -> Value) {
        let mut v = self.violations.lock().unwrap();
        if let Some(e) = v.get_mut(sig) {
            e.count += 1;
        } else {
            v.insert(sig.to_owned(), Viol { count: 1, detail: detail(), case: case() });
        }
    }

    pub fn violation_count(&self) -> u64 {
        self.violations.lock().unwrap().values().map(|v| v.count).sum()
    }

    /// Wall budget of the tier (quick 55 s, thorough 870 s, `$VERIF_CAP_S` overrides). Explorers
    /// whose space can blow up poll this and stop expanding; the first `true` records the cap
    /// in the evidence (`caps_hit`, `exhaustive: false`).
    pub fn over_budget(&self, what: &str) -> bool {
        if self.start.elapsed().as_secs_f64() <= self.cap_s {
            return false;
        }
        if !self.cap_reported.swap(true, Relaxed) {
            self.capped(&format!("wall cap of {} s hit in {what}; the space below the cap is reported as explored, the rest was skipped", self.cap_s));
        }
        true
    }

    pub fn elapsed_s(&self) -> f64 {
        self.start.elapsed().as_secs_f64()
    }

    /// Write evidence, print verdict lines, exit.
    pub fn finish(self) -> ! {
        let wall = self.start.elapsed().as_secs_f64();
        let violations = self.violations.lock().unwrap().clone();
        let outcomes = self.outcomes.lock().unwrap().clone();
        let mut new_violations = vec![];
        let mut known_hits = vec![];
        for (sig, v) in &violations {
            if let Some(k) = self.known.iter().find(|k| k.status == "open" && sig_matches(&k.sig, sig)) {
                known_hits.push((sig.clone(), k.what.clone(), v.clone()));
            } else {
                new_violations.push((sig.clone(), v.clone()));
            }
        }

        // vacuity guard
        let mut vacuous = vec![];
        for (fam, min) in self.required_families.lock().unwrap().iter() {
            let n = outcomes.get(fam).map(|m| m.len()).unwrap_or(0);
            if n < *min {
                vacuous.push(format!("family {fam}: {n} distinct outcomes < {min}"));
            }
        }

        let mut stdout = std::io::stdout().lock();
        for (sig, what, v) in &known_hits {
            let _ = writeln!(
                stdout,
                "KNOWN-FINDING: property={} {} [{}] ({} cases, e.g. {})",
                self.id,
                what,
                sig,
                v.count,
                truncate(&v.detail, 300)
            );
        }
        let mut replay_paths = vec![];
        for (sig, v) in &new_violations {
            let dir = format!("{}/replays/{}", out_root(), self.id);
            let _ = fs::create_dir_all(&dir);
            let mut h = std::collections::hash_map::DefaultHasher::new();
            sig.hash(&mut h);
            v.case.to_string().hash(&mut h);
            let path = format!("{dir}/{:016x}.json", h.finish());
            let body = json!({
                "property": self.id, "sig": sig, "detail": v.detail, "count": v.count,
                "tier": self.tier.as_str(), "case": v.case,
            });
            if let Err(e) = fs::write(&path, serde_json::to_string_pretty(&body).unwrap()) {
                eprintln!("cannot write replay {path}: {e}");
            }
            let _ = writeln!(stdout, "VIOLATION property={} replay={}", self.id, path);
            let _ = writeln!(
                stdout,
                "  sig={} cases={} detail={}",
                sig,
                v.count,
                truncate(&v.detail, 600)
            );
            replay_paths.push(path);
        }

        let states = self.states.load(Relaxed);
        let transitions = self.transitions.load(Relaxed);
        let traces = self.traces.load(Relaxed).max(transitions);
        let distinct_outcomes: BTreeMap<String, usize> =
            outcomes.iter().map(|(k, v)| (k.clone(), v.len())).collect();
        let capped = self.capped.lock().unwrap().clone();
        let mut samples = self.samples.lock().unwrap().clone();
        if samples.len() > 12 {
            // VERIF_SEED only rotates which samples are printed
            let n = samples.len();
            let off = (self.seed as usize) % n;
            samples.rotate_left(off);
            samples.truncate(12);
        }
        if samples.is_empty() {
            samples.push(json!("(no sample recorded)"));
        }
        let mut coverage = Map::new();
        coverage.insert("states".into(), json!(states));
        coverage.insert("transitions".into(), json!(transitions));
        coverage.insert("traces_validated_against_impl".into(), json!(traces));
        coverage.insert("evaluations".into(), json!(transitions));
        coverage.insert("distinct_nontrivial".into(), json!(self.nontrivial.load(Relaxed).max(0)));
        coverage.insert("rule".into(), json!(self.rule.lock().unwrap().clone()));
        coverage.insert("unspecified_not_compared".into(), json!(self.unspecified.load(Relaxed)));
        coverage.insert("exhaustive".into(), json!(capped.is_empty()));
        coverage.insert("caps_hit".into(), json!(capped));
        coverage.insert("outcomes".into(), json!(outcomes));
        coverage.insert("distinct_outcomes".into(), json!(distinct_outcomes));
        coverage.insert(
            "known_findings_hit".into(),
            json!(known_hits.iter().map(|(s, _, v)| json!({"sig": s, "cases": v.count})).collect::<Vec<_>>()),
        );
        coverage.insert("new_violation_replays".into(), json!(replay_paths));
        for (k, v) in self.extra.lock().unwrap().iter() {
            coverage.insert(k.clone(), v.clone());
        }
        coverage.insert("samples".into(), Value::Array(samples));
        let ev = json!({
            "property_id": self.id,
            "tier": self.tier.as_str(),
            "seed": self.seed,
            "level": self.level,
            "coverage": coverage,
            "assumptions": self.assumptions.lock().unwrap().clone(),
            "wall_s": wall,
            "violations": new_violations.len(),
        });
        let evdir = format!("{}/evidence", out_root());
        let _ = fs::create_dir_all(&evdir);
        let evpath = format!("{evdir}/{}.json", self.id);
        if let Err(e) = fs::write(&evpath, serde_json::to_string_pretty(&ev).unwrap() + "\n") {
            machinery_error(&format!("cannot write {evpath}: {e}"));
        }
        let _ = writeln!(
            stdout,
            "{} tier={} states={} transitions={} unspecified={} known={} new_violations={} wall={:.1}s",
            self.id,
            self.tier.as_str(),
            states,
            transitions,
            self.unspecified.load(Relaxed),
            known_hits.len(),
            new_violations.len(),
            wall
        );
        let _ = stdout.flush();
        if !vacuous.is_empty() && new_violations.is_empty() {
            machinery_error(&format!("vacuous exploration: {}", vacuous.join("; ")));
        }
        if states == 0 || transitions == 0 {
            machinery_error("nothing explored");
        }
        std::process::exit(if new_violations.is_empty() { 0 } else { 1 })
    }
}

fn sig_matches(pattern: &str, sig: &str) -> bool {
    pattern == sig
}

pub fn truncate(s: &str, n: usize) -> String {
    if s.len() <= n {
        s.to_owned()
    } else {
        let mut i = n;
        while !s.is_char_boundary(i) {
            i -= 1;
        }
        format!("{}…", &s[..i])
    }
}

// ---------------------------------------------------------------------------------------
// replay

/// Load the `case` of a replay file.
pub fn load_replay_case(path: &std::path::Path) -> Value {
    let text = fs::read_to_string(path)
        .unwrap_or_else(|e| machinery_error(&format!("cannot read replay {path:?}: {e}")));
    let v: Value = serde_json::from_str(&text)
        .unwrap_or_else(|e| machinery_error(&format!("bad replay {path:?}: {e}")));
    v.get("case").cloned().unwrap_or(v)
}

/// Replay one case twice through `eval` (which returns the observations + violations as a
/// JSON value) and insist both runs agree. Prints the verdict; exit 1 if it still violates.
pub fn replay_and_exit(id: &str, path: &std::path::Path, eval: impl Fn(&Value) -> Vec<(String, String)>) -> ! {
    let case = load_replay_case(path);
    let a = eval(&case);
    let b = eval(&case);
    if a != b {
        machinery_error(&format!("replay diverged between two runs: {a:?} vs {b:?}"));
    }
    if a.is_empty() {
        println!("replay {path:?}: no violation on this tree");
        std::process::exit(0)
    }
    println!("VIOLATION property={} replay={}", id, path.display());
    for (sig, detail) in a {
        println!("  sig={sig} detail={}", truncate(&detail, 800));
    }
    std::process::exit(1)
}

// ---------------------------------------------------------------------------------------
// parallel driver

pub fn n_threads() -> usize {
    std::env::var("VERIF_THREADS")
        .ok()
        .and_then(|s| s.parse().ok())
        .unwrap_or_else(|| std::thread::available_parallelism().map(|n| n.get()).unwrap_or(4).min(16))
}

/// Run `f(shard, &mut tally)` for every shard in `0..n_shards` on a pool of threads; the
/// tallies are merged into `report`. Shards are handed out in increasing order.
pub fn par_shards(report: &Report, n_shards: usize, f: impl Fn(usize, &mut Tally) + Sync) {
    let next = AtomicUsize::new(0);
    let threads = n_threads().min(n_shards.max(1));
    std::thread::scope(|s| {
        for _ in 0..threads {
            s.spawn(|| {
                let mut t = Tally::new();
                loop {
                    let i = next.fetch_add(1, Relaxed);
                    if i >= n_shards {
                        break;
                    }
                    f(i, &mut t);
                }
                report.merge(t);
            });
        }
    });
}

/// Same but over a slice of work items.
pub fn par_items<T: Sync>(report: &Report, items: &[T], f: impl Fn(&T, &mut Tally) + Sync) {
    par_shards(report, items.len(), |i, t| f(&items[i], t));
}

// ---------------------------------------------------------------------------------------
// enumeration helpers

/// All strings of length `0..=max_len` over `alphabet` (each symbol may be multi-char), in
/// length-then-lexicographic order, passed to `f`.
pub fn for_all_strings(alphabet: &[&str], max_len: usize, f: &mut dyn FnMut(&str)) {
    fn rec(alphabet: &[&str], left: usize, buf: &mut String, f: &mut dyn FnMut(&str)) {
        if left == 0 {
            f(buf);
            return;
        }
        for s in alphabet {
            let l = buf.len();
            buf.push_str(s);
            rec(alphabet, left - 1, buf, f);
            buf.truncate(l);
        }
    }
    let mut buf = String::new();
    for len in 0..=max_len {
        rec(alphabet, len, &mut buf, f);
    }
}

/// All strings of exactly `len` symbols with a fixed first symbol index (for sharding).
pub fn for_strings_with_prefix(alphabet: &[&str], prefix: &str, rest_len: usize, f: &mut dyn FnMut(&str)) {
    fn rec(alphabet: &[&str], left: usize, buf: &mut String, f: &mut dyn FnMut(&str)) {
        if left == 0 {
            f(buf);
            return;
        }
        for s in alphabet {
            let l = buf.len();
            buf.push_str(s);
            rec(alphabet, left - 1, buf, f);
            buf.truncate(l);
        }
    }
    let mut buf = String::from(prefix);
    rec(alphabet, rest_len, &mut buf, f);
}

/// All permutations of `0..n` (Heap's algorithm order is irrelevant; lexicographic here).
pub fn permutations(n: usize) -> Vec<Vec<usize>> {
    fn rec(n: usize, cur: &mut Vec<usize>, used: &mut Vec<bool>, out: &mut Vec<Vec<usize>>) {
        if cur.len() == n {
            out.push(cur.clone());
            return;
        }
        for i in 0..n {
            if !used[i] {
                used[i] = true;
                cur.push(i);
                rec(n, cur, used, out);
                cur.pop();
                used[i] = false;
            }
        }
    }
    let mut out = vec![];
    rec(n, &mut vec![], &mut vec![false; n], &mut out);
    out
}

/// Mixed-radix product iterator: calls `f` with every vector `v` where `v[i] < radices[i]`,
/// first dimension slowest, value 0 (the simplest) first.
pub fn for_product(radices: &[usize], f: &mut dyn FnMut(&[usize])) {
    if radices.iter().any(|&r| r == 0) {
        return;
    }
    let mut v = vec![0usize; radices.len()];
    loop {
        f(&v);
        let mut i = radices.len();
        loop {
            if i == 0 {
                return;
            }
            i -= 1;
            v[i] += 1;
            if v[i] < radices[i] {
                break;
            }
            v[i] = 0;
        }
    }
}

/// Deterministic 64-bit hash (fixed keys) for deduplication.
pub fn fixed_hash<T: Hash>(t: &T) -> u64 {
    let mut h = std::collections::hash_map::DefaultHasher::new();
    t.hash(&mut h);
    h.finish()
}

//! Valid seed inputs of the C17 entry points (every seed must be accepted by its entry
//! point; the worker checks that at start).

use serde_json::{json, Value};

pub const ROOM: &str = "!roomA:example.org";
pub const ALICE: &str = "@alice:example.org";
pub const BOB: &str = "@bob:example.org";
pub const EV1: &str = "$Rqnc-F-dvnEYJTyHq_iKxU2bZ1CI92-kuZq3a5lr5Zg";
pub const EV2: &str = "$ev2:example.org";

fn timeline(ty: &str, content: Value, state_key: Option<&str>, extra: Value) -> Value {
    let mut ev = json!({
        "type": ty,
        "content": content,
        "event_id": EV1,
        "room_id": ROOM,
        "sender": ALICE,
        "origin_server_ts": 1_700_000_000_123_u64,
        "unsigned": {"age": 1234},
    });
    let o = ev.as_object_mut().unwrap();
    if let Some(sk) = state_key {
        o.insert("state_key".into(), json!(sk));
    }
    if let Value::Object(extra) = extra {
        for (k, v) in extra {
            o.insert(k, v);
        }
    }
    ev
}

/// message-like event contents: (type, content, extra top-level members)
fn message_like() -> Vec<(&'static str, Value, Value)> {
    vec![
        ("m.room.message", json!({"msgtype": "m.text", "body": "hello world"}), json!({})),
        (
            "m.room.message",
            json!({
                "msgtype": "m.text", "body": "> <@bob:example.org> hi\n\nhello",
                "format": "org.matrix.custom.html",
                "formatted_body": "<mx-reply><blockquote><a href=\"https://matrix.to/#/!roomA:example.org/$ev2:example.org\">In reply to</a> hi</blockquote></mx-reply><b>hello</b>",
                "m.relates_to": {"m.in_reply_to": {"event_id": EV2}},
                "m.mentions": {"user_ids": [BOB], "room": false},
            }),
            json!({"unsigned": {"age": 5, "transaction_id": "txn1", "m.relations": {"m.thread": {"count": 2, "current_user_participated": true, "latest_event": {"type": "m.room.message", "content": {"msgtype": "m.text", "body": "x"}, "event_id": EV2, "sender": BOB, "origin_server_ts": 5, "room_id": ROOM}}}}}),
        ),
        (
            "m.room.message",
            json!({
                "msgtype": "m.image", "body": "cat.png", "url": "mxc://example.org/abcDEF123",
                "info": {"h": 398, "w": 394, "mimetype": "image/png", "size": 31037,
                         "thumbnail_url": "mxc://example.org/thumb", "thumbnail_info": {"h": 32, "w": 32, "mimetype": "image/png", "size": 210}},
            }),
            json!({}),
        ),
        (
            "m.room.message",
            json!({
                "msgtype": "m.text", "body": "* edited",
                "m.new_content": {"msgtype": "m.text", "body": "edited"},
                "m.relates_to": {"rel_type": "m.replace", "event_id": EV2},
            }),
            json!({}),
        ),
        (
            "m.room.message",
            json!({
                "msgtype": "m.file", "body": "secret.pdf",
                "file": {"url": "mxc://example.org/enc", "v": "v2", "iv": "w+sE15fzSc0AAAAAAAAAAA",
                         "hashes": {"sha256": "fdSLu/YkRx3Wyh3KQabP3rd6+SFiKg5lsJZQHtkSAYA"},
                         "key": {"alg": "A256CTR", "ext": true, "k": "aWF6-32KGYaC3A_FEUCk1Bt0JA37zP0wrStgmdCaW-0", "key_ops": ["encrypt", "decrypt"], "kty": "oct"}},
                "info": {"mimetype": "application/pdf", "size": 46144},
            }),
            json!({}),
        ),
        ("m.room.message", json!({"msgtype": "org.example.custom", "body": "custom", "extra": {"a": [1, 2, null]}}), json!({})),
        ("m.reaction", json!({"m.relates_to": {"rel_type": "m.annotation", "event_id": EV2, "key": "👍"}}), json!({})),
        ("m.room.redaction", json!({"reason": "spam", "redacts": EV2}), json!({"redacts": EV2})),
        (
            "m.room.encrypted",
            json!({
                "algorithm": "m.megolm.v1.aes-sha2", "ciphertext": "AwgAEnACgAkLmt6qF84IK++J7UDH2Za1YVchHyprqTqsg",
                "sender_key": "IlRMeOPX2e0MurIyfWEucYBRVOEEUMrOHqn/8mLqMjA", "device_id": "RJYKSTBOIE",
                "session_id": "IkwqWxT2zy3DI1E/zM2Wq+CE8tr3eEpsxsVGjGrMPdw",
                "m.relates_to": {"rel_type": "m.thread", "event_id": EV2, "is_falling_back": true, "m.in_reply_to": {"event_id": EV2}},
            }),
            json!({}),
        ),
        ("m.sticker", json!({"body": "Landing", "url": "mxc://example.org/sticker", "info": {"h": 200, "w": 140, "mimetype": "image/png", "size": 73602}}), json!({})),
        (
            "m.call.invite",
            json!({"call_id": "12345", "lifetime": 60000, "version": 0, "offer": {"type": "offer", "sdp": "v=0\r\no=- 6584580628695956864 2 IN IP4 127.0.0.1"}}),
            json!({}),
        ),
        ("m.key.verification.request", json!({"body": "verify", "from_device": "AliceDevice2", "methods": ["m.sas.v1"], "msgtype": "m.key.verification.request", "to": BOB}), json!({})),
        ("org.example.custom.event", json!({"anything": {"goes": [true, 1, "x", null, {}]}}), json!({})),
        // redacted message
        ("m.room.message", json!({}), json!({"unsigned": {"redacted_because": {"type": "m.room.redaction", "content": {"reason": "x"}, "redacts": EV1, "event_id": EV2, "sender": BOB, "origin_server_ts": 7, "room_id": ROOM}}})),
    ]
}

/// state event contents: (type, state_key, content, extra)
fn state() -> Vec<(&'static str, &'static str, Value, Value)> {
    vec![
        (
            "m.room.member",
            BOB,
            json!({"membership": "join", "displayname": "Bob", "avatar_url": "mxc://example.org/bobAvatar", "reason": "hi", "is_direct": false}),
            json!({"unsigned": {"age": 3, "prev_content": {"membership": "invite"}}}),
        ),
        (
            "m.room.member",
            BOB,
            json!({"membership": "invite", "third_party_invite": {"display_name": "bob", "signed": {"mxid": BOB, "token": "abc123", "signatures": {"magic.forest": {"ed25519:3": "fQpGIW1Snz+pwLZu6sTy2aHy/DYWWTspTJRPyNp0PKkymfIsNffysMl6ObMMFdIJhk6g6pwlIqZ54rxo8SLmAg"}}}}}),
            json!({}),
        ),
        (
            "m.room.power_levels",
            "",
            json!({"ban": 50, "events": {"m.room.name": 50, "m.room.power_levels": 100}, "events_default": 0, "invite": 0, "kick": 50, "redact": 50,
                   "state_default": 50, "users": {ALICE: 100, BOB: -5}, "users_default": 0, "notifications": {"room": 20}}),
            json!({}),
        ),
        ("m.room.create", "", json!({"creator": ALICE, "room_version": "10", "m.federate": true, "predecessor": {"room_id": "!old:example.org", "event_id": EV2}, "type": "m.space"}), json!({})),
        ("m.room.join_rules", "", json!({"join_rule": "restricted", "allow": [{"type": "m.room_membership", "room_id": "!space:example.org"}, {"type": "org.example.other", "x": 1}]}), json!({})),
        ("m.room.name", "", json!({"name": "The room"}), json!({})),
        ("m.room.topic", "", json!({"topic": "A topic"}), json!({})),
        ("m.room.canonical_alias", "", json!({"alias": "#room:example.org", "alt_aliases": ["#other:example.org"]}), json!({})),
        ("m.room.history_visibility", "", json!({"history_visibility": "shared"}), json!({})),
        ("m.room.server_acl", "", json!({"allow": ["*"], "allow_ip_literals": false, "deny": ["*.evil.example", "evil.example"]}), json!({})),
        ("m.room.encryption", "", json!({"algorithm": "m.megolm.v1.aes-sha2", "rotation_period_ms": 604800000_u64, "rotation_period_msgs": 100}), json!({})),
        ("m.room.tombstone", "", json!({"body": "moved", "replacement_room": "!new:example.org"}), json!({})),
        ("m.room.pinned_events", "", json!({"pinned": [EV1, EV2]}), json!({})),
        ("m.space.child", "!child:example.org", json!({"via": ["example.org"], "order": "aaa", "suggested": true}), json!({})),
        ("org.example.custom.state", "k", json!({"x": {"y": [1, "2", null]}}), json!({})),
    ]
}

pub fn timeline_events() -> Vec<Value> {
    let mut out: Vec<Value> = message_like().into_iter().map(|(t, c, x)| timeline(t, c, None, x)).collect();
    for (t, sk, c, x) in state().into_iter().take(5) {
        out.push(timeline(t, c, Some(sk), x));
    }
    out
}

fn without(mut v: Value, keys: &[&str]) -> Value {
    fn strip(v: &mut Value, keys: &[&str]) {
        if let Value::Object(o) = v {
            for k in keys {
                o.remove(*k);
            }
        }
    }
    strip(&mut v, keys);
    v
}

pub fn sync_timeline_events() -> Vec<Value> {
    timeline_events().into_iter().map(|v| without(v, &["room_id"])).collect()
}

pub fn state_events() -> Vec<Value> {
    state().into_iter().map(|(t, sk, c, x)| timeline(t, c, Some(sk), x)).collect()
}

pub fn stripped_state_events() -> Vec<Value> {
    state()
        .into_iter()
        .take(10)
        .map(|(t, sk, c, _)| json!({"type": t, "state_key": sk, "content": c, "sender": ALICE}))
        .collect()
}

pub fn to_device_events() -> Vec<Value> {
    let ev = |ty: &str, content: Value| json!({"type": ty, "sender": ALICE, "content": content});
    vec![
        ev("m.dummy", json!({})),
        ev("m.room_key", json!({"algorithm": "m.megolm.v1.aes-sha2", "room_id": ROOM, "session_id": "X3lUlvLELLYxeTx4yOVu6UDpasGEVO0Jbu+QFnm0cKQ", "session_key": "AgAAAADxKHa9uFxcXzwYoNueL5Xqi69IkD4sni8LlfJL7qNBEY"})),
        ev(
            "m.room_key_request",
            json!({"action": "request", "body": {"algorithm": "m.megolm.v1.aes-sha2", "room_id": ROOM, "sender_key": "RF3s+E7RkTQTGF2d8Deol0FkQvgII2aJDf3/Jp5mxVU", "session_id": "X3lUlvLELLYxeTx4yOVu6UDpasGEVO0Jbu+QFnm0cKQ"},
                   "request_id": "1495474790150.19", "requesting_device_id": "RJYKSTBOIE"}),
        ),
        ev("m.room_key_request", json!({"action": "request_cancellation", "request_id": "1495474790150.19", "requesting_device_id": "RJYKSTBOIE"})),
        ev(
            "m.forwarded_room_key",
            json!({"algorithm": "m.megolm.v1.aes-sha2", "forwarding_curve25519_key_chain": ["hPQNcabIABgGnx3/ACv/jmMmiQHoeFfuLB17tzWp6Hw"], "room_id": ROOM,
                   "sender_claimed_ed25519_key": "aj40p+aw64yPIdsxoog8jhPu9i7l7NcFRecuOQblE3Y", "sender_key": "RF3s+E7RkTQTGF2d8Deol0FkQvgII2aJDf3/Jp5mxVU",
                   "session_id": "X3lUlvLELLYxeTx4yOVu6UDpasGEVO0Jbu+QFnm0cKQ", "session_key": "AgAAAADxKHa9uFxcXzwYoNueL5Xqi69IkD4sni8Llf"}),
        ),
        ev("m.key.verification.request", json!({"from_device": "AliceDevice2", "methods": ["m.sas.v1", "m.qr_code.scan.v1"], "timestamp": 1559598944869_u64, "transaction_id": "S0meUniqueAndOpaqueString"})),
        ev(
            "m.key.verification.start",
            json!({"from_device": "BobDevice1", "hashes": ["sha256"], "key_agreement_protocols": ["curve25519-hkdf-sha256"], "message_authentication_codes": ["hkdf-hmac-sha256.v2"],
                   "method": "m.sas.v1", "short_authentication_string": ["decimal", "emoji"], "transaction_id": "S0meUniqueAndOpaqueString"}),
        ),
        ev(
            "m.key.verification.accept",
            json!({"commitment": "fQpGIW1Snz+pwLZu6sTy2aHy/DYWWTspTJRPyNp0PKkymfIsNffysMl6ObMMFdIJhk6g6pwlIqZ54rxo8SLmAg", "hash": "sha256", "key_agreement_protocol": "curve25519-hkdf-sha256",
                   "message_authentication_code": "hkdf-hmac-sha256.v2", "method": "m.sas.v1", "short_authentication_string": ["decimal"], "transaction_id": "S0meUniqueAndOpaqueString"}),
        ),
        ev("m.key.verification.key", json!({"key": "fQpGIW1Snz+pwLZu6sTy2aHy/DYWWTspTJRPyNp0PKkymfIsNffysMl6ObMMFdIJhk6g6pwlIqZ54rxo8SLmAg", "transaction_id": "S0meUniqueAndOpaqueString"})),
        ev("m.key.verification.mac", json!({"keys": "2Wptgo4CwmLo/Y8B8qinxApKaCkBG2fjTWB7AbP5Uy+aIbygsSdLOFzvdDjww8zUVKCmI02eP9xtyJxc/cLiBA", "mac": {"ed25519:ABCDEF": "fQpGIW1Snz+pwLZu6sTy2aHy/DYWWTspTJRPyNp0PKkymfIsNffysMl6ObMMFdIJhk6g6pwlIqZ54rxo8SLmAg"}, "transaction_id": "S0meUniqueAndOpaqueString"})),
        ev("m.key.verification.cancel", json!({"code": "m.user", "reason": "User rejected the key verification request", "transaction_id": "S0meUniqueAndOpaqueString"})),
        ev(
            "m.room.encrypted",
            json!({"algorithm": "m.olm.v1.curve25519-aes-sha2", "sender_key": "Szl29ksW/L8yZGWAX+8dY1XyFi+i5wm+DRhTGkbMiwU",
                   "ciphertext": {"7qZcfnBmbEGzxxaWfBjElJuvn7BZx+lSz/SvFrDF/z8": {"body": "AwogGJJzMhf/S3GQFXAOrCZ3iKyGU5ZScVtjI0KypTYrW...", "type": 0}}}),
        ),
        ev("m.secret.request", json!({"action": "request", "name": "org.example.some.secret", "request_id": "randomly_generated_id_9573", "requesting_device_id": "ABCDEFG"})),
        ev("m.secret.send", json!({"request_id": "randomly_generated_id_9573", "secret": "ThisIsASecretDon'tTellAnyone"})),
        ev("org.example.custom.todevice", json!({"a": [1, {"b": null}]})),
    ]
}

pub fn ruleset() -> Vec<Value> {
    let full = json!({
        "override": [
            {"rule_id": ".m.rule.master", "default": true, "enabled": false, "conditions": [], "actions": []},
            {"rule_id": ".m.rule.suppress_notices", "default": true, "enabled": true,
             "conditions": [{"kind": "event_match", "key": "content.msgtype", "pattern": "m.notice"}], "actions": []},
            {"rule_id": ".m.rule.is_user_mention", "default": true, "enabled": true,
             "conditions": [{"kind": "event_property_contains", "key": "content.m\\.mentions.user_ids", "value": ALICE}],
             "actions": ["notify", {"set_tweak": "sound", "value": "default"}, {"set_tweak": "highlight"}]},
            {"rule_id": ".m.rule.roomnotif", "default": true, "enabled": true,
             "conditions": [{"kind": "event_match", "key": "content.body", "pattern": "@room"}, {"kind": "sender_notification_permission", "key": "room"}],
             "actions": ["notify", {"set_tweak": "highlight", "value": true}]},
            {"rule_id": "my.override", "default": false, "enabled": true,
             "conditions": [{"kind": "room_member_count", "is": "<=2"}, {"kind": "contains_display_name"}, {"kind": "event_property_is", "key": "content.n", "value": 1}],
             "actions": ["notify", "org.example.custom_action", {"set_tweak": "sound", "value": "org.example.ding"}]},
        ],
        "content": [
            {"rule_id": ".m.rule.contains_user_name", "default": true, "enabled": true, "pattern": "alice", "actions": ["notify", {"set_tweak": "sound", "value": "default"}, {"set_tweak": "highlight"}]},
            {"rule_id": "glob", "default": false, "enabled": true, "pattern": "ca*t?s", "actions": ["notify"]},
        ],
        "room": [{"rule_id": ROOM, "default": false, "enabled": true, "actions": ["dont_notify"]}],
        "sender": [{"rule_id": BOB, "default": false, "enabled": true, "actions": ["notify"]}],
        "underride": [
            {"rule_id": ".m.rule.call", "default": true, "enabled": true,
             "conditions": [{"kind": "event_match", "key": "type", "pattern": "m.call.invite"}], "actions": ["notify", {"set_tweak": "sound", "value": "ring"}, {"set_tweak": "highlight", "value": false}]},
            {"rule_id": ".m.rule.message", "default": true, "enabled": true,
             "conditions": [{"kind": "event_match", "key": "type", "pattern": "m.room.message"}], "actions": ["notify"]},
        ],
    });
    vec![
        full,
        json!({}),
        json!({"override": [], "content": [], "room": [], "sender": [], "underride": []}),
        json!({"content": [{"rule_id": "w", "default": false, "enabled": true, "pattern": "*", "actions": ["coalesce"]}]}),
        json!({"override": [{"rule_id": "o", "default": false, "enabled": true, "actions": [],
               "conditions": [{"kind": "org.example.custom_condition", "foo": {"bar": 1}}, {"kind": "room_member_count", "is": "==3"}, {"kind": "room_member_count", "is": ">=10"}]}]}),
        json!({"underride": [{"rule_id": "u", "default": false, "enabled": false, "actions": [{"set_tweak": "sound", "value": "ding"}],
               "conditions": [{"kind": "event_property_is", "key": "content.flag", "value": true}, {"kind": "event_property_is", "key": "content.x", "value": null}, {"kind": "event_property_contains", "key": "content.list", "value": "s"}]}]}),
    ]
}

pub fn push_conditions() -> Vec<Value> {
    vec![
        json!({"kind": "event_match", "key": "content.body", "pattern": "ca*t?s"}),
        json!({"kind": "event_match", "key": "room_id", "pattern": ROOM}),
        json!({"kind": "contains_display_name"}),
        json!({"kind": "room_member_count", "is": "2"}),
        json!({"kind": "room_member_count", "is": "<=10"}),
        json!({"kind": "room_member_count", "is": ">1"}),
        json!({"kind": "sender_notification_permission", "key": "room"}),
        json!({"kind": "event_property_is", "key": "content.m\\.relates_to.rel_type", "value": "m.replace"}),
        json!({"kind": "event_property_is", "key": "content.n", "value": 1}),
        json!({"kind": "event_property_contains", "key": "content.m\\.mentions.user_ids", "value": ALICE}),
        json!({"kind": "org.example.custom", "anything": [1, 2, {"x": null}]}),
    ]
}

pub fn global_account_data() -> Vec<Value> {
    vec![
        json!({"type": "m.direct", "content": {ALICE: [ROOM, "!other:example.org"], BOB: []}}),
        json!({"type": "m.push_rules", "content": {"global": ruleset()[0].clone()}}),
        json!({"type": "m.ignored_user_list", "content": {"ignored_users": {BOB: {}, "@spam:example.org": {}}}}),
        json!({"type": "m.identity_server", "content": {"base_url": "https://id.example.org"}}),
        json!({"type": "m.identity_server", "content": {"base_url": null}}),
        json!({"type": "m.secret_storage.default_key", "content": {"key": "abcdefg"}}),
        json!({"type": "m.secret_storage.key.abcdefg", "content": {"name": "main", "algorithm": "m.secret_storage.v1.aes-hmac-sha2", "iv": "YWJjZGVmZ2hpamtsbW5vcA", "mac": "aWRvbnRrbm93d2hhdGFtYWNsb29rc2xpa2U",
               "passphrase": {"algorithm": "m.pbkdf2", "salt": "rocksalt", "iterations": 500000, "bits": 256}}}),
        json!({"type": "org.example.custom.account_data", "content": {"a": {"b": [1, 2, 3]}}}),
    ]
}

pub fn sync_responses() -> Vec<Value> {
    let msg = sync_timeline_events();
    let st = state_events().into_iter().map(|v| without(v, &["room_id"])).collect::<Vec<_>>();
    vec![
        json!({"next_batch": "s72595_4483_1934"}),
        json!({
            "next_batch": "s72595_4483_1934",
            "account_data": {"events": [global_account_data()[0].clone(), global_account_data()[2].clone()]},
            "presence": {"events": [{"type": "m.presence", "sender": BOB, "content": {"presence": "online", "last_active_ago": 2478593, "currently_active": true, "status_msg": "hi", "avatar_url": "mxc://example.org/a"}}]},
            "to_device": {"events": [to_device_events()[1].clone(), to_device_events()[0].clone()]},
            "device_lists": {"changed": [BOB], "left": ["@gone:example.org"]},
            "device_one_time_keys_count": {"signed_curve25519": 50, "curve25519": 10},
            "device_unused_fallback_key_types": ["signed_curve25519"],
        }),
        json!({
            "next_batch": "s2",
            "rooms": {
                "join": {
                    ROOM: {
                        "summary": {"m.heroes": [BOB, "@carol:example.org"], "m.joined_member_count": 2, "m.invited_member_count": 0},
                        "state": {"events": [st[0].clone(), st[2].clone()]},
                        "timeline": {"events": [msg[0].clone(), msg[1].clone(), msg[6].clone()], "limited": true, "prev_batch": "t34-23535_0_0"},
                        "ephemeral": {"events": [
                            {"type": "m.typing", "content": {"user_ids": [BOB]}},
                            {"type": "m.receipt", "content": {EV1: {"m.read": {BOB: {"ts": 1436451550453_u64, "thread_id": "main"}}, "m.read.private": {ALICE: {"ts": 1436451550453_u64}}}}},
                        ]},
                        "account_data": {"events": [{"type": "m.tag", "content": {"tags": {"u.work": {"order": 0.9}}}}, {"type": "m.fully_read", "content": {"event_id": EV1}}]},
                        "unread_notifications": {"highlight_count": 1, "notification_count": 5},
                        "unread_thread_notifications": {EV2: {"highlight_count": 0, "notification_count": 2}},
                    }
                },
            },
        }),
        json!({
            "next_batch": "s3",
            "rooms": {
                "invite": {"!inv:example.org": {"invite_state": {"events": [stripped_state_events()[0].clone(), stripped_state_events()[5].clone()]}}},
                "leave": {"!left:example.org": {"state": {"events": [st[0].clone()]}, "timeline": {"events": [msg[7].clone()], "limited": false}, "account_data": {"events": []}}},
                "knock": {"!knock:example.org": {"knock_state": {"events": [stripped_state_events()[4].clone()]}}},
            },
        }),
        json!({
            "next_batch": "s4",
            "rooms": {"join": {"!big:example.org": {"timeline": {"events": msg.clone()}, "state": {"events": st.clone()}}}},
        }),
    ]
}

/// a PDU (room version 10 style) as it travels in a federation transaction
pub fn pdu(ty: &str, content: Value, state_key: Option<&str>) -> Value {
    let mut ev = json!({
        "type": ty,
        "content": content,
        "room_id": ROOM,
        "sender": ALICE,
        "origin_server_ts": 1_700_000_000_123_u64,
        "depth": 12,
        "auth_events": [EV1, "$auth2auth2auth2auth2auth2auth2auth2auth2ab"],
        "prev_events": [EV1],
        "hashes": {"sha256": "thishashcoversallfieldsincasethisisredacted"},
        "signatures": {"example.org": {"ed25519:key_version": "these86bytesofbase64signaturecoveressentialfieldsincludinghashessocancheckredactedpdus"}},
        "unsigned": {"age": 4612},
    });
    if let Some(sk) = state_key {
        ev.as_object_mut().unwrap().insert("state_key".into(), json!(sk));
    }
    ev
}

pub fn transactions() -> Vec<Value> {
    vec![
        json!({"origin": "example.org", "origin_server_ts": 1_700_000_000_123_u64, "pdus": []}),
        json!({"origin": "example.org", "origin_server_ts": 1_700_000_000_123_u64, "pdus": [pdu("m.room.message", json!({"msgtype": "m.text", "body": "hi"}), None)]}),
        json!({
            "origin": "example.org:8448", "origin_server_ts": 1,
            "pdus": [pdu("m.room.member", json!({"membership": "join"}), Some(ALICE)), pdu("m.room.name", json!({"name": "n"}), Some(""))],
            "edus": [
                {"edu_type": "m.typing", "content": {"room_id": ROOM, "user_id": ALICE, "typing": true}},
                {"edu_type": "m.presence", "content": {"push": [{"user_id": ALICE, "presence": "online", "last_active_ago": 5000, "currently_active": true, "status_msg": "x"}]}},
                {"edu_type": "m.receipt", "content": {ROOM: {"m.read": {ALICE: {"data": {"ts": 1533358089009_u64}, "event_ids": [EV1]}}}}},
                {"edu_type": "m.device_list_update", "content": {"user_id": ALICE, "device_id": "QBUAZIFURK", "device_display_name": "Mobile", "stream_id": 6, "prev_id": [5], "deleted": false,
                    "keys": {"user_id": ALICE, "device_id": "QBUAZIFURK", "algorithms": ["m.olm.v1.curve25519-aes-sha2", "m.megolm.v1.aes-sha2"],
                             "keys": {"curve25519:QBUAZIFURK": "3C5BFWi2Y8MaVvjM8M22DBmh24PmgR0nPvJOIArzgyI", "ed25519:QBUAZIFURK": "lEuiRJBit0IG6nUf5pUzWTUEsRVVe/HJkoKuEww9ULI"},
                             "signatures": {ALICE: {"ed25519:QBUAZIFURK": "dSO80A01XiigH3uBiDVx/EjzaoycHcjq9lfQX0uWsqxl2giMIiSPR8a4d291W1ihKJL/a+myXS367WT6NAIcBA"}}}}},
                {"edu_type": "m.direct_to_device", "content": {"sender": ALICE, "type": "m.room_key_request", "message_id": "hiezohf6Hoo7kaev",
                    "messages": {BOB: {"*": {"action": "request", "request_id": "r", "requesting_device_id": "D"}}}}},
                {"edu_type": "m.signing_key_update", "content": {"user_id": ALICE, "master_key": {"user_id": ALICE, "usage": ["master"], "keys": {"ed25519:base64+master+public+key": "base64+master+public+key"}}}},
                {"edu_type": "org.example.custom", "content": {"x": 1}},
            ],
        }),
    ]
}

/// events for the hash / signature entry points: (room version, event)
pub fn hash_events() -> Vec<(&'static str, Value)> {
    let v1 = {
        let mut e = pdu("m.room.message", json!({"msgtype": "m.text", "body": "Here is the message content"}), None);
        let o = e.as_object_mut().unwrap();
        o.insert("event_id".into(), json!("$0:example.org"));
        o.insert("origin".into(), json!("example.org"));
        o.insert("auth_events".into(), json!([["$a:example.org", {"sha256": "abc"}]]));
        o.insert("prev_events".into(), json!([["$p:example.org", {"sha256": "def"}]]));
        e
    };
    vec![
        ("1", v1),
        ("3", pdu("m.room.message", json!({"msgtype": "m.text", "body": "v3"}), None)),
        ("6", pdu("m.room.member", json!({"membership": "join", "displayname": "A", "join_authorised_via_users_server": BOB}), Some(ALICE))),
        ("9", pdu("m.room.member", json!({"membership": "join", "join_authorised_via_users_server": BOB}), Some(ALICE))),
        ("10", pdu("m.room.power_levels", json!({"ban": 50, "users": {ALICE: 100}, "invite": 0, "events": {"m.room.name": 50}}), Some(""))),
        ("11", pdu("m.room.redaction", json!({"redacts": EV2, "reason": "r"}), None)),
        ("11", pdu("m.room.create", json!({"room_version": "11", "m.federate": false}), Some(""))),
        ("10", pdu("m.room.member", json!({"membership": "invite", "third_party_invite": {"display_name": "b", "signed": {"mxid": BOB, "token": "t", "signatures": {"id.example.org": {"ed25519:0": "c2ln"}}}}}), Some(BOB))),
    ]
}

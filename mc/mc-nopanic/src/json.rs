//! A small JSON *text* tree for the structure-level mutations of C17. Unlike
//! `serde_json::Value` it can hold duplicate members, arbitrary number spellings (`1e999`,
//! `-0`, `01`) and spliced raw text (a value nested 256 arrays deep), because the mutants must
//! reach the parser under test as text.

use serde_json::Value;

#[derive(Clone, Debug, PartialEq)]
pub enum J {
    Null,
    Bool(bool),
    /// the spelling as it is written out
    Num(String),
    /// the unescaped content
    Str(String),
    Arr(Vec<J>),
    Obj(Vec<(String, J)>),
    /// text written out verbatim
    Raw(String),
}

impl J {
    pub fn from_value(v: &Value) -> J {
        match v {
            Value::Null => J::Null,
            Value::Bool(b) => J::Bool(*b),
            Value::Number(n) => J::Num(n.to_string()),
            Value::String(s) => J::Str(s.clone()),
            Value::Array(a) => J::Arr(a.iter().map(J::from_value).collect()),
            Value::Object(o) => J::Obj(o.iter().map(|(k, v)| (k.clone(), J::from_value(v))).collect()),
        }
    }

    pub fn write(&self, out: &mut String) {
        match self {
            J::Null => out.push_str("null"),
            J::Bool(true) => out.push_str("true"),
            J::Bool(false) => out.push_str("false"),
            J::Num(n) => out.push_str(n),
            J::Str(s) => write_str(s, out),
            J::Arr(a) => {
                out.push('[');
                for (i, x) in a.iter().enumerate() {
                    if i > 0 {
                        out.push(',');
                    }
                    x.write(out);
                }
                out.push(']');
            }
            J::Obj(o) => {
                out.push('{');
                for (i, (k, x)) in o.iter().enumerate() {
                    if i > 0 {
                        out.push(',');
                    }
                    write_str(k, out);
                    out.push(':');
                    x.write(out);
                }
                out.push('}');
            }
            J::Raw(r) => out.push_str(r),
        }
    }

    pub fn text(&self) -> String {
        let mut s = String::new();
        self.write(&mut s);
        s
    }

    /// index of the JSON type, for "swap for each other type"
    pub fn type_index(&self) -> usize {
        match self {
            J::Null => 0,
            J::Bool(_) => 1,
            J::Num(_) => 2,
            J::Str(_) => 3,
            J::Arr(_) => 4,
            J::Obj(_) => 5,
            J::Raw(_) => 6,
        }
    }

    pub fn n_children(&self) -> usize {
        match self {
            J::Arr(a) => a.len(),
            J::Obj(o) => o.len(),
            _ => 0,
        }
    }

    pub fn child(&self, i: usize) -> &J {
        match self {
            J::Arr(a) => &a[i],
            J::Obj(o) => &o[i].1,
            _ => unreachable!("child of a scalar"),
        }
    }

    fn child_mut(&mut self, i: usize) -> &mut J {
        match self {
            J::Arr(a) => &mut a[i],
            J::Obj(o) => &mut o[i].1,
            _ => unreachable!("child of a scalar"),
        }
    }

    pub fn at(&self, path: &[usize]) -> &J {
        let mut n = self;
        for &i in path {
            n = n.child(i);
        }
        n
    }

    fn at_mut(&mut self, path: &[usize]) -> &mut J {
        let mut n = self;
        for &i in path {
            n = n.child_mut(i);
        }
        n
    }

    /// a copy with the node at `path` replaced
    pub fn with_replaced(&self, path: &[usize], new: J) -> J {
        let mut c = self.clone();
        *c.at_mut(path) = new;
        c
    }

    /// a copy without the member / element at `path` (not the root)
    pub fn with_deleted(&self, path: &[usize]) -> J {
        let mut c = self.clone();
        let (last, parent) = path.split_last().expect("not the root");
        match c.at_mut(parent) {
            J::Arr(a) => {
                a.remove(*last);
            }
            J::Obj(o) => {
                o.remove(*last);
            }
            _ => unreachable!(),
        }
        c
    }

    /// a copy with the member / element at `path` written twice (duplicate key in an object)
    pub fn with_duplicated(&self, path: &[usize]) -> J {
        let mut c = self.clone();
        let (last, parent) = path.split_last().expect("not the root");
        match c.at_mut(parent) {
            J::Arr(a) => {
                let x = a[*last].clone();
                a.insert(*last + 1, x);
            }
            J::Obj(o) => {
                let x = o[*last].clone();
                o.insert(*last + 1, x);
            }
            _ => unreachable!(),
        }
        c
    }

    /// every node path, parents before children, the root (empty path) first
    pub fn paths(&self) -> Vec<Vec<usize>> {
        fn rec(n: &J, cur: &mut Vec<usize>, out: &mut Vec<Vec<usize>>) {
            out.push(cur.clone());
            for i in 0..n.n_children() {
                cur.push(i);
                rec(n.child(i), cur, out);
                cur.pop();
            }
        }
        let mut out = vec![];
        rec(self, &mut vec![], &mut out);
        out
    }
}

pub fn write_str(s: &str, out: &mut String) {
    out.push('"');
    for c in s.chars() {
        match c {
            '"' => out.push_str("\\\""),
            '\\' => out.push_str("\\\\"),
            '\n' => out.push_str("\\n"),
            '\r' => out.push_str("\\r"),
            '\t' => out.push_str("\\t"),
            c if (c as u32) < 0x20 => out.push_str(&format!("\\u{:04x}", c as u32)),
            c => out.push(c),
        }
    }
    out.push('"');
}

//! The C17 entry points: for each a closure `bytes -> Accepted(digest) | Rejected` around the
//! real ruma code, its valid seeds, its canaries and entry-specific hostile bytes.

use std::{
    collections::BTreeMap,
    fmt::{self, Debug, Write as _},
    hash::Hasher,
    sync::OnceLock,
};

use js_int::{Int, UInt};
use ruma_common::{
    api::{IncomingRequest, IncomingResponse},
    canonical_json::redact,
    http_headers::{ContentDisposition, ContentDispositionType, TokenString},
    power_levels::NotificationPowerLevels,
    push::{
        FlattenedJson, NewConditionalPushRule, NewPatternedPushRule, NewPushRule, NewSimplePushRule, PushCondition,
        PushConditionPowerLevelsCtx, PushConditionRoomCtx, RuleKind, Ruleset,
    },
    serde::{base64::UrlSafe, Base64, Raw},
    Base64PublicKey, CanonicalJsonObject, CanonicalJsonValue, ClientSecret, CrossSigningKeyId,
    CrossSigningOrDeviceSigningKeyId, DeviceId, DeviceKeyId, DeviceSigningKeyId, EventId, MatrixToUri, MatrixUri,
    MilliSecondsSinceUnixEpoch, MxcUri, OneTimeKeyId, OwnedEventId, OwnedRoomAliasId, OwnedRoomId, OwnedRoomOrAliasId,
    OwnedServerName, OwnedUserId, RoomAliasId, RoomId, RoomOrAliasId, RoomVersionId, ServerName, ServerSigningKeyId,
    ServerSigningKeyVersion, SessionId, TransactionId, UserId, VoipVersionId,
};
use ruma_events::{
    AnyGlobalAccountDataEvent, AnyStateEvent, AnyStrippedStateEvent, AnySyncTimelineEvent, AnyTimelineEvent,
    AnyToDeviceEvent,
};
use ruma_federation_api::authentication::XMatrix;
use ruma_html::{sanitize_html, remove_html_reply_fallback, Html, HtmlSanitizerMode, RemoveReplyFallback, SanitizerConfig};
use ruma_signatures::{
    content_hash, hash_and_sign_event, reference_hash, sign_json, verify_event, verify_json, Ed25519KeyPair, PublicKeyMap,
};
use serde::{de::DeserializeOwned, Deserialize, Serialize};
use serde_json::{json, value::RawValue as RawJsonValue, Value};

use crate::{mutate::Kind, seeds};

#[derive(Clone, Copy, Debug, PartialEq, Eq)]
pub enum Outcome {
    /// the entry point returned a value; the digest covers its Debug / serialized form and the
    /// results of the accessors called on it
    Accepted(u64),
    /// the entry point returned an error
    Rejected,
}

impl Outcome {
    pub fn show(&self) -> String {
        match self {
            Outcome::Accepted(d) => format!("accepted:{d:016x}"),
            Outcome::Rejected => "rejected".into(),
        }
    }
}

pub struct Entry {
    pub name: &'static str,
    pub kind: Kind,
    pub seeds: Vec<Vec<u8>>,
    /// inputs whose outcome is recorded in a fresh process and must never change afterwards
    pub canaries: Vec<Vec<u8>>,
    pub extra_bytes: &'static [u8],
    pub regressions: Vec<Vec<u8>>,
    pub run: fn(&[u8]) -> Outcome,
    /// the entry point never rejects: re-evaluate the canaries after every input
    pub never_rejects: bool,
    /// relative cost of one call (the supervisor cuts the input stream into blocks of
    /// `block / weight` inputs)
    pub weight: u64,
}

impl Entry {
    pub fn family(&self) -> crate::mutate::Family<'_> {
        crate::mutate::Family { kind: self.kind, seeds: &self.seeds, extra_bytes: self.extra_bytes, regressions: &self.regressions, canaries: &self.canaries }
    }
}

// ---------------------------------------------------------------------------------------
// digest

/// Deterministic digest of what an entry point returned (SipHash with fixed keys, so equal
/// across processes).
pub struct Dig(std::collections::hash_map::DefaultHasher);

impl fmt::Write for Dig {
    fn write_str(&mut self, s: &str) -> fmt::Result {
        self.0.write(s.as_bytes());
        Ok(())
    }
}

impl Dig {
    pub fn new() -> Self {
        Dig(std::collections::hash_map::DefaultHasher::new())
    }
    pub fn dbg<T: Debug + ?Sized>(&mut self, t: &T) {
        let _ = write!(self, "{t:?}\u{1}");
    }
    pub fn str(&mut self, s: &str) {
        self.0.write(s.as_bytes());
        self.0.write_u8(1);
    }
    pub fn ser<T: Serialize>(&mut self, t: &T) {
        match serde_json::to_string(t) {
            Ok(s) => self.str(&s),
            Err(_) => self.str("<serialize error>"),
        }
    }
    pub fn done(self) -> Outcome {
        Outcome::Accepted(self.0.finish())
    }
}

impl Default for Dig {
    fn default() -> Self {
        Self::new()
    }
}

use Outcome::Rejected;

static EXPLAIN: std::sync::atomic::AtomicBool = std::sync::atomic::AtomicBool::new(false);

/// `--explain`: print why an input was rejected (seed debugging only)
pub fn set_explain(on: bool) {
    EXPLAIN.store(on, std::sync::atomic::Ordering::Relaxed);
}

fn rej<E: fmt::Display>(e: E) -> Outcome {
    if EXPLAIN.load(std::sync::atomic::Ordering::Relaxed) {
        eprintln!("  rejected: {e}");
    }
    Rejected
}

fn utf8(b: &[u8]) -> Option<&str> {
    std::str::from_utf8(b).ok()
}

fn b(v: &Value) -> Vec<u8> {
    v.to_string().into_bytes()
}

fn bs(v: Vec<Value>) -> Vec<Vec<u8>> {
    v.iter().map(b).collect()
}

fn strs(v: &[&str]) -> Vec<Vec<u8>> {
    v.iter().map(|s| s.as_bytes().to_vec()).collect()
}

// ---------------------------------------------------------------------------------------
// JSON -> typed events

fn run_event<T: DeserializeOwned + Debug>(input: &[u8]) -> Outcome {
    let raw: Raw<T> = match serde_json::from_slice(input) {
        Ok(r) => r,
        Err(e) => return rej(e),
    };
    // what a consumer does first: look at the type without deserializing
    let ty = raw.get_field::<String>("type");
    match raw.deserialize() {
        Ok(ev) => {
            let mut d = Dig::new();
            d.dbg(&ty.ok());
            d.dbg(&ev);
            d.done()
        }
        Err(e) => rej(e),
    }
}

fn run_sync_timeline_event(input: &[u8]) -> Outcome {
    let raw: Raw<AnySyncTimelineEvent> = match serde_json::from_slice(input) {
        Ok(r) => r,
        Err(e) => return rej(e),
    };
    match raw.deserialize() {
        Ok(ev) => {
            let mut d = Dig::new();
            d.dbg(&ev);
            d.dbg(&ev.event_type());
            d.dbg(&(ev.event_id(), ev.sender(), ev.origin_server_ts(), ev.transaction_id()));
            // (a fixed identifier that the code under test refuses shows up in the digest)
            match OwnedRoomId::try_from(seeds::ROOM) {
                Ok(room) => d.dbg(&ev.into_full_event(room).room_id()),
                Err(e) => return rej(e),
            }
            d.done()
        }
        Err(e) => rej(e),
    }
}

fn run_raw_get_field(input: &[u8]) -> Outcome {
    let raw: Raw<AnySyncTimelineEvent> = match serde_json::from_slice(input) {
        Ok(r) => r,
        Err(e) => return rej(e),
    };
    let mut d = Dig::new();
    let ty = raw.get_field::<String>("type");
    let sender = raw.get_field::<OwnedUserId>("sender");
    let content = raw.get_field::<Value>("content");
    let ts = raw.get_field::<MilliSecondsSinceUnixEpoch>("origin_server_ts");
    let unsigned = raw.get_field::<Box<RawJsonValue>>("unsigned");
    let missing = raw.get_field::<Value>("no_such_field");
    let borrowed = raw.get_field::<&str>("event_id");
    let content_raw = raw.get_field::<Raw<Value>>("content");
    let nested = content_raw.as_ref().ok().and_then(|c| c.as_ref()).map(|c| c.get_field::<String>("body").map_err(|e| e.to_string()));
    let as_value = raw.deserialize_as::<Value>();
    let ok = matches!((&ty, &sender, &content, &ts), (Ok(Some(_)), Ok(Some(_)), Ok(Some(_)), Ok(Some(_))));
    d.dbg(&ty.map_err(|e| e.to_string()));
    d.dbg(&sender.map_err(|e| e.to_string()));
    d.dbg(&content.map_err(|e| e.to_string()));
    d.dbg(&ts.map_err(|e| e.to_string()));
    d.dbg(&unsigned.map(|o| o.map(|r| r.get().to_owned())).map_err(|e| e.to_string()));
    d.dbg(&missing.map_err(|e| e.to_string()));
    d.dbg(&borrowed.map_err(|e| e.to_string()));
    d.dbg(&nested);
    d.dbg(&as_value.map_err(|e| e.to_string()));
    d.str(raw.json().get());
    if ok {
        d.done()
    } else {
        rej("a field is missing or has the wrong type")
    }
}

fn run_canonical_json(input: &[u8]) -> Outcome {
    let direct = serde_json::from_slice::<CanonicalJsonValue>(input);
    let via_value = serde_json::from_slice::<Value>(input).map(CanonicalJsonValue::try_from);
    let mut d = Dig::new();
    d.dbg(&via_value.as_ref().map(|r| r.as_ref().map_err(|e| e.to_string())).map_err(|e| e.to_string()));
    match direct {
        Ok(c) => {
            d.dbg(&c);
            d.str(&c.to_string());
            d.ser(&c);
            if let CanonicalJsonValue::Object(o) = &c {
                for v in [RoomVersionId::V1, RoomVersionId::V11] {
                    let rules = v.rules().expect("rules of a known room version");
                    d.dbg(&redact(o.clone(), &rules.redaction, None).map_err(|e| e.to_string()));
                }
                d.dbg(&ruma_signatures::canonical_json(o).map_err(|e| e.to_string()));
            }
            d.done()
        }
        Err(e) => rej(e),
    }
}

/// The room context of the push entry points; `None` if the code under test refuses one of the
/// fixed identifiers (then the entry point reports `Rejected`, which a canary notices).
fn ctx() -> Option<PushConditionRoomCtx> {
    let mut users = BTreeMap::new();
    users.insert(OwnedUserId::try_from(seeds::ALICE).ok()?, Int::from(100));
    let mut notifications = NotificationPowerLevels::new();
    notifications.room = Int::from(50);
    Some(PushConditionRoomCtx {
        room_id: OwnedRoomId::try_from(seeds::ROOM).ok()?,
        member_count: UInt::from(2u32),
        user_id: OwnedUserId::try_from(seeds::BOB).ok()?,
        user_display_name: "Bob".into(),
        power_levels: Some(PushConditionPowerLevelsCtx { users, users_default: Int::from(0), notifications }),
    })
}

fn fixed_push_event() -> Raw<Value> {
    let ev = json!({
        "type": "m.room.message", "sender": seeds::ALICE, "room_id": seeds::ROOM, "event_id": seeds::EV1,
        "content": {"msgtype": "m.text", "body": "hello Bob, the cats are here @room", "n": 1, "flag": true, "x": null, "list": ["s", 1],
                    "m.mentions": {"user_ids": [seeds::BOB]}, "m.relates_to": {"rel_type": "m.replace"}},
    });
    Raw::from_json_string(ev.to_string()).expect("raw event")
}

fn run_ruleset(input: &[u8]) -> Outcome {
    match serde_json::from_slice::<Ruleset>(input) {
        Ok(rs) => {
            let mut d = Dig::new();
            d.dbg(&rs);
            d.ser(&rs);
            let ev = fixed_push_event();
            let Some(c) = ctx() else { return rej("fixed identifier refused") };
            d.dbg(&rs.get_match(&ev, &c).map(|r| r.rule_id().to_owned()));
            d.dbg(&rs.get_actions(&ev, &c));
            d.done()
        }
        Err(e) => rej(e),
    }
}

fn run_push_condition(input: &[u8]) -> Outcome {
    match serde_json::from_slice::<PushCondition>(input) {
        Ok(cond) => {
            let mut d = Dig::new();
            d.dbg(&cond);
            d.ser(&cond);
            let flat = FlattenedJson::from_raw(&fixed_push_event());
            let Some(c) = ctx() else { return rej("fixed identifier refused") };
            d.dbg(&cond.applies(&flat, &c));
            d.done()
        }
        Err(e) => rej(e),
    }
}

// ---------------------------------------------------------------------------------------
// endpoint messages

fn run_sync_response(input: &[u8]) -> Outcome {
    use ruma_client_api::sync::sync_events::v3::Response;
    let resp = http::Response::builder()
        .status(200)
        .header("content-type", "application/json")
        .body(input.to_vec())
        .expect("http response");
    match Response::try_from_http_response(resp) {
        Ok(r) => {
            let mut d = Dig::new();
            d.dbg(&r);
            // deserialize every raw event the response carries
            for (_, room) in &r.rooms.join {
                for ev in &room.timeline.events {
                    d.dbg(&ev.deserialize().map_err(|e| e.to_string()));
                }
                for ev in &room.state.events {
                    d.dbg(&ev.deserialize().map_err(|e| e.to_string()));
                }
                for ev in &room.ephemeral.events {
                    d.dbg(&ev.deserialize().map_err(|e| e.to_string()));
                }
                for ev in &room.account_data.events {
                    d.dbg(&ev.deserialize().map_err(|e| e.to_string()));
                }
            }
            for (_, room) in &r.rooms.invite {
                for ev in &room.invite_state.events {
                    d.dbg(&ev.deserialize().map_err(|e| e.to_string()));
                }
            }
            for ev in &r.to_device.events {
                d.dbg(&ev.deserialize().map_err(|e| e.to_string()));
            }
            for ev in &r.account_data.events {
                d.dbg(&ev.deserialize().map_err(|e| e.to_string()));
            }
            for ev in &r.presence.events {
                d.dbg(&ev.deserialize().map_err(|e| e.to_string()));
            }
            d.done()
        }
        Err(e) => rej(e),
    }
}

fn run_send_transaction(input: &[u8]) -> Outcome {
    use ruma_federation_api::transactions::send_transaction_message::v1::Request;
    let req = http::Request::builder()
        .method("PUT")
        .uri("https://example.org/_matrix/federation/v1/send/txn1")
        .header("content-type", "application/json")
        .body(input.to_vec())
        .expect("http request");
    match Request::try_from_http_request(req, &["txn1"]) {
        Ok(r) => {
            let mut d = Dig::new();
            d.dbg(&r);
            for pdu in &r.pdus {
                let obj = serde_json::from_str::<CanonicalJsonObject>(pdu.get());
                if let Ok(o) = &obj {
                    let rules = RoomVersionId::V10.rules().expect("rules");
                    d.dbg(&reference_hash(o, &rules).map_err(|e| e.to_string()));
                }
                d.dbg(&obj.map_err(|e| e.to_string()));
            }
            for edu in &r.edus {
                d.dbg(&edu.deserialize().map_err(|e| e.to_string()));
            }
            d.done()
        }
        Err(e) => rej(e),
    }
}

fn run_messages_query(input: &[u8]) -> Outcome {
    use ruma_client_api::message::get_message_events::v3::Request;
    let Some(q) = utf8(input) else { return Rejected };
    let uri = format!("https://example.org/_matrix/client/v3/rooms/%21roomA%3Aexample.org/messages?{q}");
    let Ok(uri) = uri.parse::<http::Uri>() else { return rej("not a URI") };
    let req = http::Request::builder().method("GET").uri(uri).body(Vec::<u8>::new()).expect("http request");
    match Request::try_from_http_request(req, &[seeds::ROOM]) {
        Ok(r) => {
            let mut d = Dig::new();
            d.dbg(&r);
            d.done()
        }
        Err(e) => rej(e),
    }
}

// ---------------------------------------------------------------------------------------
// identifiers

fn server(d: &mut Dig, sn: &ServerName) {
    d.str(sn.host());
    d.dbg(&sn.port());
    d.dbg(&sn.is_ip_literal());
}

fn event_id_for_uris() -> Option<OwnedEventId> {
    OwnedEventId::try_from(seeds::EV2).ok()
}

fn run_user_id(input: &[u8]) -> Outcome {
    let Some(s) = utf8(input) else { return Rejected };
    let mut d = Dig::new();
    d.dbg(&<&ServerName>::try_from("example.org").map(|sn| UserId::parse_with_server_name(s, sn).map_err(|e| e.to_string())).map_err(|e| e.to_string()));
    d.dbg(&OwnedUserId::try_from(s.to_owned()).map_err(|e| e.to_string()));
    d.dbg(&UserId::parse_arc(s).map_err(|e| e.to_string()));
    d.dbg(&serde_json::from_value::<OwnedUserId>(Value::String(s.to_owned())).map_err(|e| e.to_string()));
    match <&UserId>::try_from(s) {
        Ok(id) => {
            d.str(id.localpart());
            server(&mut d, id.server_name());
            d.dbg(&id.validate_strict().map_err(|e| e.to_string()));
            d.dbg(&id.validate_historical().map_err(|e| e.to_string()));
            d.dbg(&id.is_historical());
            d.str(&id.matrix_to_uri().to_string());
            d.str(&id.matrix_uri(true).to_string());
            d.done()
        }
        Err(e) => rej(e),
    }
}

fn run_room_id(input: &[u8]) -> Outcome {
    let Some(s) = utf8(input) else { return Rejected };
    let mut d = Dig::new();
    d.dbg(&OwnedRoomId::try_from(s.to_owned()).map_err(|e| e.to_string()));
    d.dbg(&serde_json::from_value::<OwnedRoomId>(Value::String(s.to_owned())).map_err(|e| e.to_string()));
    match <&RoomId>::try_from(s) {
        Ok(id) => {
            if let Some(sn) = id.server_name() {
                server(&mut d, sn);
            }
            d.str(&id.matrix_to_uri().to_string());
            d.str(&id.matrix_uri(true).to_string());
            let (Ok(via), Some(ev)) = (OwnedServerName::try_from("example.org"), event_id_for_uris()) else {
                return rej("fixed identifier refused");
            };
            d.str(&id.matrix_to_uri_via([via.clone()]).to_string());
            d.str(&id.matrix_to_event_uri(ev.clone()).to_string());
            d.str(&id.matrix_uri_via([via], false).to_string());
            d.str(&id.matrix_event_uri(ev).to_string());
            d.done()
        }
        Err(e) => rej(e),
    }
}

#[allow(deprecated)] // the deprecated conversions are still public API
fn run_room_alias_id(input: &[u8]) -> Outcome {
    let Some(s) = utf8(input) else { return Rejected };
    let mut d = Dig::new();
    d.dbg(&OwnedRoomAliasId::try_from(s.to_owned()).map_err(|e| e.to_string()));
    match <&RoomAliasId>::try_from(s) {
        Ok(id) => {
            d.str(id.alias());
            server(&mut d, id.server_name());
            d.str(&id.matrix_to_uri().to_string());
            d.str(&id.matrix_uri(false).to_string());
            let Some(ev) = event_id_for_uris() else { return rej("fixed identifier refused") };
            d.str(&id.matrix_to_event_uri(ev.clone()).to_string());
            d.str(&id.matrix_event_uri(ev).to_string());
            d.done()
        }
        Err(e) => rej(e),
    }
}

fn run_room_or_alias_id(input: &[u8]) -> Outcome {
    let Some(s) = utf8(input) else { return Rejected };
    let mut d = Dig::new();
    match <&RoomOrAliasId>::try_from(s) {
        Ok(id) => {
            d.dbg(&(id.is_room_id(), id.is_room_alias_id()));
            if let Some(sn) = id.server_name() {
                server(&mut d, sn);
            }
            d.dbg(&<&RoomId>::try_from(id).map(|r| r.as_str().to_owned()).map_err(|a| a.as_str().to_owned()));
            d.dbg(&<&RoomAliasId>::try_from(id).map(|r| r.as_str().to_owned()).map_err(|a| a.as_str().to_owned()));
            let owned: OwnedRoomOrAliasId = id.to_owned();
            d.dbg(&OwnedRoomId::try_from(owned.clone()).map(|r| r.to_string()).map_err(|a| a.to_string()));
            d.dbg(&OwnedRoomAliasId::try_from(owned).map(|r| r.to_string()).map_err(|a| a.to_string()));
            d.done()
        }
        Err(e) => rej(e),
    }
}

fn run_event_id(input: &[u8]) -> Outcome {
    let Some(s) = utf8(input) else { return Rejected };
    let mut d = Dig::new();
    d.dbg(&OwnedEventId::try_from(s.to_owned()).map_err(|e| e.to_string()));
    d.dbg(&serde_json::from_value::<OwnedEventId>(Value::String(s.to_owned())).map_err(|e| e.to_string()));
    match <&EventId>::try_from(s) {
        Ok(id) => {
            d.str(id.localpart());
            if let Some(sn) = id.server_name() {
                server(&mut d, sn);
            }
            let Ok(room) = <&RoomId>::try_from(seeds::ROOM) else { return rej("fixed identifier refused") };
            d.str(&room.matrix_to_event_uri(id.to_owned()).to_string());
            d.str(&room.matrix_event_uri(id.to_owned()).to_string());
            d.done()
        }
        Err(e) => rej(e),
    }
}

fn run_server_name(input: &[u8]) -> Outcome {
    let Some(s) = utf8(input) else { return Rejected };
    let mut d = Dig::new();
    d.dbg(&OwnedServerName::try_from(s.to_owned()).map_err(|e| e.to_string()));
    d.dbg(&serde_json::from_value::<OwnedServerName>(Value::String(s.to_owned())).map_err(|e| e.to_string()));
    match <&ServerName>::try_from(s) {
        Ok(sn) => {
            server(&mut d, sn);
            d.done()
        }
        Err(e) => rej(e),
    }
}

fn run_key_id(input: &[u8]) -> Outcome {
    let Some(s) = utf8(input) else { return Rejected };
    let mut d = Dig::new();
    let mut any = false;
    macro_rules! key {
        ($T:ty) => {
            match <&$T>::try_from(s) {
                Ok(k) => {
                    any = true;
                    d.dbg(&k.algorithm());
                    d.dbg(&k.key_name());
                }
                Err(e) => d.str(&e.to_string()),
            }
        };
    }
    key!(DeviceKeyId);
    key!(ServerSigningKeyId);
    key!(DeviceSigningKeyId);
    key!(CrossSigningKeyId);
    key!(CrossSigningOrDeviceSigningKeyId);
    key!(OneTimeKeyId);
    if any {
        d.done()
    } else {
        rej("no key id type accepts it")
    }
}

fn run_mxc_uri(input: &[u8]) -> Outcome {
    let Some(s) = utf8(input) else { return Rejected };
    let m = <&MxcUri>::from(s);
    let mut d = Dig::new();
    let v = m.validate();
    d.dbg(&m.is_valid());
    d.dbg(&m.media_id().map_err(|e| e.to_string()));
    d.dbg(&m.server_name().map(|s| s.as_str().to_owned()).map_err(|e| e.to_string()));
    match m.parts() {
        Ok((sn, media)) => {
            server(&mut d, sn);
            d.str(media);
        }
        Err(e) => d.str(&e.to_string()),
    }
    match v {
        Ok(()) => d.done(),
        Err(e) => rej(e),
    }
}

fn run_room_version_id(input: &[u8]) -> Outcome {
    let Some(s) = utf8(input) else { return Rejected };
    let mut d = Dig::new();
    d.dbg(&serde_json::from_value::<RoomVersionId>(Value::String(s.to_owned())).map_err(|e| e.to_string()));
    match RoomVersionId::try_from(s) {
        Ok(v) => {
            d.str(v.as_str());
            d.dbg(&v.rules());
            d.dbg(&v);
            d.done()
        }
        Err(e) => rej(e),
    }
}

fn run_misc_id(input: &[u8]) -> Outcome {
    let Some(s) = utf8(input) else { return Rejected };
    let mut d = Dig::new();
    let secret = <&ClientSecret>::try_from(s);
    d.dbg(&<&SessionId>::try_from(s).map_err(|e| e.to_string()));
    d.dbg(&VoipVersionId::try_from(s).map_err(|e| e.to_string()));
    d.dbg(&<&Base64PublicKey>::try_from(s).map_err(|e| e.to_string()));
    d.dbg(&<&ServerSigningKeyVersion>::try_from(s).map_err(|e| e.to_string()));
    d.dbg(&<&TransactionId>::from(s));
    d.dbg(&<&DeviceId>::from(s));
    match secret {
        Ok(c) => {
            d.str(c.as_str());
            d.done()
        }
        Err(e) => rej(e),
    }
}

// ---------------------------------------------------------------------------------------
// URIs

fn run_matrix_to_uri(input: &[u8]) -> Outcome {
    let Some(s) = utf8(input) else { return Rejected };
    match MatrixToUri::parse(s) {
        Ok(u) => {
            let mut d = Dig::new();
            d.dbg(u.id());
            d.dbg(&u.via());
            let t = u.to_string();
            d.str(&t);
            d.dbg(&MatrixToUri::parse(&t).map(|x| x.to_string()).map_err(|e| e.to_string()));
            d.done()
        }
        Err(e) => rej(e),
    }
}

fn run_matrix_uri(input: &[u8]) -> Outcome {
    let Some(s) = utf8(input) else { return Rejected };
    match MatrixUri::parse(s) {
        Ok(u) => {
            let mut d = Dig::new();
            d.dbg(u.id());
            d.dbg(&u.via());
            d.dbg(&u.action());
            let t = u.to_string();
            d.str(&t);
            d.dbg(&MatrixUri::parse(&t).map(|x| x.to_string()).map_err(|e| e.to_string()));
            d.done()
        }
        Err(e) => rej(e),
    }
}

// ---------------------------------------------------------------------------------------
// HTTP header values

fn run_content_disposition(input: &[u8]) -> Outcome {
    let mut d = Dig::new();
    d.dbg(&ContentDispositionType::try_from(input).map_err(|e| e.to_string()));
    d.dbg(&TokenString::try_from(input).map_err(|e| e.to_string()));
    if let Some(s) = utf8(input) {
        d.dbg(&s.parse::<ContentDisposition>().map_err(|e| e.to_string()));
    }
    if let Ok(hv) = http::HeaderValue::from_bytes(input) {
        d.dbg(&ContentDisposition::try_from(hv.as_bytes()).map_err(|e| e.to_string()));
    }
    match ContentDisposition::try_from(input) {
        Ok(cd) => {
            d.dbg(&cd);
            let t = cd.to_string();
            d.str(&t);
            d.dbg(&http::HeaderValue::from_str(&t).is_ok());
            d.dbg(&t.parse::<ContentDisposition>().map_err(|e| e.to_string()));
            d.done()
        }
        Err(e) => rej(e),
    }
}

fn run_x_matrix(input: &[u8]) -> Outcome {
    let mut d = Dig::new();
    if let Ok(hv) = http::HeaderValue::from_bytes(input) {
        d.dbg(&XMatrix::try_from(&hv).map(|x| x.to_string()).map_err(|e| e.to_string()));
    }
    let Some(s) = utf8(input) else { return Rejected };
    d.dbg(&s.parse::<XMatrix>().map(|x| x.to_string()).map_err(|e| e.to_string()));
    match XMatrix::parse(s) {
        Ok(x) => {
            d.dbg(&x);
            let t = x.to_string();
            d.str(&t);
            // the conversion a client performs before sending the header
            let hv = http::HeaderValue::from(&x);
            d.dbg(&hv);
            d.dbg(&XMatrix::try_from(&hv).map(|x| x.to_string()).map_err(|e| e.to_string()));
            d.done()
        }
        Err(e) => rej(e),
    }
}

// ---------------------------------------------------------------------------------------
// push evaluation and edits

#[derive(Deserialize)]
struct PushIn {
    ruleset: Box<RawJsonValue>,
    event: Box<RawJsonValue>,
}

fn run_push_get_match(input: &[u8]) -> Outcome {
    let p: PushIn = match serde_json::from_slice(input) {
        Ok(p) => p,
        Err(e) => return rej(e),
    };
    let rs: Ruleset = match serde_json::from_str(p.ruleset.get()) {
        Ok(r) => r,
        Err(e) => return rej(e),
    };
    let raw: Raw<AnySyncTimelineEvent> = Raw::from_json(p.event);
    let Some(c) = ctx() else { return rej("fixed identifier refused") };
    let mut d = Dig::new();
    let flat = FlattenedJson::from_raw(&raw);
    d.dbg(&flat);
    d.dbg(&flat.get_str("content.body"));
    d.dbg(&rs.get_match(&raw, &c).map(|r| r.rule_id().to_owned()));
    let mut no_power = c.clone();
    no_power.power_levels = None;
    d.dbg(&rs.get_actions(&raw, &no_power));
    for rule in rs.iter() {
        d.dbg(&rule.applies(&flat, &c));
    }
    d.done()
}

/// input: `<pattern>\n<body>`: a content rule and an event_match condition with that pattern
/// against a message with that body
fn run_push_pattern(input: &[u8]) -> Outcome {
    let Some(s) = utf8(input) else { return Rejected };
    let Some((pattern, body)) = s.split_once('\n') else { return rej("no newline") };
    let mut rs = Ruleset::new();
    let actions = vec![ruma_common::push::Action::Notify];
    if let Err(e) = rs.insert(NewPushRule::Content(NewPatternedPushRule::new("p".into(), pattern.to_owned(), actions.clone())), None, None) {
        return rej(e);
    }
    let cond: PushCondition = match serde_json::from_value(json!({"kind": "event_match", "key": "content.body", "pattern": pattern})) {
        Ok(c) => c,
        Err(e) => return rej(e),
    };
    let cond2: PushCondition =
        serde_json::from_value(json!({"kind": "event_match", "key": "sender", "pattern": pattern})).expect("event_match condition");
    let ev = json!({"type": "m.room.message", "sender": seeds::ALICE, "content": {"msgtype": "m.text", "body": body}});
    let raw: Raw<Value> = Raw::from_json_string(ev.to_string()).expect("raw event");
    let Some(mut c) = ctx() else { return rej("fixed identifier refused") };
    let mut d = Dig::new();
    d.dbg(&rs.get_match(&raw, &c).map(|r| r.rule_id().to_owned()));
    let flat = FlattenedJson::from_raw(&raw);
    d.dbg(&cond.applies(&flat, &c));
    d.dbg(&cond2.applies(&flat, &c));
    // the display name of the user is remote-controlled as well (contains_display_name)
    c.user_display_name = pattern.to_owned();
    let dn: PushCondition = serde_json::from_value(json!({"kind": "contains_display_name"})).expect("condition");
    d.dbg(&dn.applies(&flat, &c));
    d.done()
}

#[derive(Deserialize)]
struct InsertIn {
    ruleset: Ruleset,
    kind: String,
    rule: Box<RawJsonValue>,
    #[serde(default)]
    after: Option<String>,
    #[serde(default)]
    before: Option<String>,
}

fn run_push_insert(input: &[u8]) -> Outcome {
    let p: InsertIn = match serde_json::from_slice(input) {
        Ok(p) => p,
        Err(e) => return rej(e),
    };
    let rule = match p.kind.as_str() {
        "override" => serde_json::from_str::<NewConditionalPushRule>(p.rule.get()).map(NewPushRule::Override),
        "underride" => serde_json::from_str::<NewConditionalPushRule>(p.rule.get()).map(NewPushRule::Underride),
        "content" => serde_json::from_str::<NewPatternedPushRule>(p.rule.get()).map(NewPushRule::Content),
        "room" => serde_json::from_str::<NewSimplePushRule<OwnedRoomId>>(p.rule.get()).map(NewPushRule::Room),
        "sender" => serde_json::from_str::<NewSimplePushRule<OwnedUserId>>(p.rule.get()).map(NewPushRule::Sender),
        _ => return rej("unknown kind"),
    };
    let rule = match rule {
        Ok(r) => r,
        Err(e) => return rej(e),
    };
    let mut rs = p.ruleset;
    let kind = RuleKind::from(p.kind.as_str());
    let id = rule.rule_id().to_owned();
    let mut d = Dig::new();
    let r = rs.insert(rule, p.after.as_deref(), p.before.as_deref());
    d.dbg(&rs);
    // the other edits a client can ask for, with the same remote-controlled ids
    d.dbg(&rs.set_enabled(kind.clone(), &id, false).map_err(|e| e.to_string()));
    d.dbg(&rs.set_actions(kind.clone(), &id, vec![]).map_err(|e| e.to_string()));
    if let Some(a) = &p.after {
        d.dbg(&rs.get(kind.clone(), a).is_some());
        d.dbg(&rs.remove(kind.clone(), a).map_err(|e| e.to_string()));
    }
    d.dbg(&rs.remove(kind, &id).map_err(|e| e.to_string()));
    d.dbg(&rs);
    match r {
        Ok(()) => d.done(),
        Err(e) => rej(e),
    }
}

/// the edits that take the rule kind from the request path (`/pushrules/global/{kind}/{ruleId}`): any string is
/// a RuleKind (unknown ones are kept), any string a rule id
fn run_push_edit_by_path(input: &[u8]) -> Outcome {
    #[derive(serde::Deserialize)]
    struct In {
        kind: String,
        rule_id: String,
    }
    let p: In = match serde_json::from_slice(input) {
        Ok(p) => p,
        Err(e) => return rej(e),
    };
    let mut rs = Ruleset::server_default(<&ruma_common::UserId>::try_from("@u:example.org").expect("user id"));
    // one user rule per kind that has string ids, so that valid requests succeed
    rs.insert(NewPushRule::Override(NewConditionalPushRule::new("mine".into(), vec![], vec![])), None, None).expect("insert");
    rs.insert(NewPushRule::Content(NewPatternedPushRule::new("mine".into(), "word".into(), vec![])), None, None).expect("insert");
    let kind = RuleKind::from(p.kind.as_str());
    let mut d = Dig::new();
    d.dbg(&rs.get(kind.clone(), &p.rule_id).is_some());
    d.dbg(&rs.set_enabled(kind.clone(), &p.rule_id, false).map_err(|e| e.to_string()));
    d.dbg(&rs.set_actions(kind.clone(), &p.rule_id, vec![]).map_err(|e| e.to_string()));
    let r = rs.remove(kind, &p.rule_id);
    d.dbg(&rs);
    match r {
        Ok(()) => d.done(),
        Err(e) => rej(e),
    }
}

fn push_insert_seeds() -> Vec<Value> {
    let rs = seeds::ruleset();
    let full = rs[0].clone();
    vec![
        json!({"ruleset": full, "kind": "override", "rule": {"rule_id": "new", "conditions": [{"kind": "event_match", "key": "type", "pattern": "m.*"}], "actions": ["notify"]}}),
        json!({"ruleset": full, "kind": "override", "rule": {"rule_id": "new", "actions": []}, "after": "my.override"}),
        json!({"ruleset": full, "kind": "override", "rule": {"rule_id": "my.override", "actions": []}, "before": "my.override"}),
        json!({"ruleset": full, "kind": "content", "rule": {"rule_id": "c", "pattern": "x*", "actions": ["notify"]}, "after": "glob"}),
        json!({"ruleset": full, "kind": "content", "rule": {"rule_id": "glob", "pattern": "y", "actions": []}, "before": "glob"}),
        json!({"ruleset": full, "kind": "room", "rule": {"rule_id": "!other:example.org", "actions": ["notify"]}, "before": seeds::ROOM}),
        json!({"ruleset": full, "kind": "sender", "rule": {"rule_id": "@carol:example.org", "actions": []}, "after": seeds::BOB}),
        json!({"ruleset": rs[5].clone(), "kind": "underride", "rule": {"rule_id": "u2", "conditions": [], "actions": ["notify"]}, "after": "u"}),
        json!({"ruleset": {}, "kind": "override", "rule": {"rule_id": "first", "actions": []}}),
        json!({"ruleset": rs[4].clone(), "kind": "override", "rule": {"rule_id": "o2", "actions": []}, "after": "o", "before": null}),
        // an existing rule re-inserted relative to itself (also when it is the last rule of its kind)
        json!({"ruleset": full, "kind": "override", "rule": {"rule_id": "my.override", "actions": []}, "after": "my.override"}),
        json!({"ruleset": full, "kind": "content", "rule": {"rule_id": "glob", "pattern": "y", "actions": []}, "after": "glob"}),
        json!({"ruleset": full, "kind": "room", "rule": {"rule_id": seeds::ROOM, "actions": ["notify"]}, "after": seeds::ROOM}),
        json!({"ruleset": full, "kind": "sender", "rule": {"rule_id": seeds::BOB, "actions": []}, "after": seeds::BOB}),
    ]
}

fn push_get_match_seeds() -> Vec<Value> {
    let rs = seeds::ruleset();
    let evs = seeds::sync_timeline_events();
    vec![
        json!({"ruleset": rs[0], "event": evs[0]}),
        json!({"ruleset": rs[0], "event": evs[1]}),
        json!({"ruleset": rs[0], "event": {"type": "m.room.message", "sender": seeds::ALICE, "content": {"msgtype": "m.text", "body": "my cats, @room", "n": 1, "m.mentions": {"user_ids": [seeds::ALICE, seeds::BOB]}}}}),
        json!({"ruleset": rs[0], "event": {"type": "m.call.invite", "sender": seeds::ALICE, "content": {"call_id": "c"}}}),
        json!({"ruleset": rs[3], "event": evs[0]}),
        json!({"ruleset": rs[4], "event": evs[5]}),
        json!({"ruleset": rs[5], "event": {"type": "t", "sender": seeds::ALICE, "content": {"flag": true, "x": null, "list": ["s", 2, null, false], "a.b": {"c\\d": 1}}}}),
        json!({"ruleset": {}, "event": {}}),
    ]
}

// ---------------------------------------------------------------------------------------
// signatures, hashes, keys

const KEY_SEED: [u8; 32] = [
    0x9d, 0x61, 0xb1, 0x9d, 0xef, 0xfd, 0x5a, 0x60, 0xba, 0x84, 0x4a, 0xf4, 0x92, 0xec, 0x2c, 0xc4, 0x44, 0x49, 0xc5, 0x69, 0x7b,
    0x32, 0x69, 0x19, 0x70, 0x3b, 0xac, 0x03, 0x1c, 0xae, 0x7f, 0x60,
];
const HEAD_V1: [u8; 16] = [0x30, 0x2e, 0x02, 0x01, 0x00, 0x30, 0x05, 0x06, 0x03, 0x2b, 0x65, 0x70, 0x04, 0x22, 0x04, 0x20];
const HEAD_V2: [u8; 16] = [0x30, 0x51, 0x02, 0x01, 0x01, 0x30, 0x05, 0x06, 0x03, 0x2b, 0x65, 0x70, 0x04, 0x22, 0x04, 0x20];
/// the header ring writes: version 1, total length 0x53, public key as `[1] { BIT STRING }`
const HEAD_RING: [u8; 16] = [0x30, 0x53, 0x02, 0x01, 0x01, 0x30, 0x05, 0x06, 0x03, 0x2b, 0x65, 0x70, 0x04, 0x22, 0x04, 0x20];

fn pkcs8_v1(seed: &[u8; 32]) -> Vec<u8> {
    let mut d = HEAD_V1.to_vec();
    d.extend_from_slice(seed);
    d
}

fn key_pair() -> &'static Ed25519KeyPair {
    static KP: OnceLock<Ed25519KeyPair> = OnceLock::new();
    KP.get_or_init(|| Ed25519KeyPair::from_der(&pkcs8_v1(&KEY_SEED), "1".into()).expect("fixed PKCS#8 v1 document"))
}

fn public_key_b64() -> String {
    Base64::<ruma_common::serde::base64::Standard, _>::new(key_pair().public_key().to_vec()).encode()
}

fn der_seeds() -> Vec<Vec<u8>> {
    let public = key_pair().public_key();
    let mut v2 = HEAD_V2.to_vec();
    v2.extend_from_slice(&KEY_SEED);
    v2.extend_from_slice(&[0x81, 0x21, 0x00]);
    v2.extend_from_slice(&public);
    let mut ring = HEAD_RING.to_vec();
    ring.extend_from_slice(&KEY_SEED);
    ring.extend_from_slice(&[0xA1, 0x23, 0x03, 0x21, 0x00]);
    ring.extend_from_slice(&public);
    let mut other = [0u8; 32];
    for (i, x) in other.iter_mut().enumerate() {
        *x = (17 + 7 * i) as u8;
    }
    let other_pub = Ed25519KeyPair::from_der(&pkcs8_v1(&other), "1".into()).expect("second fixed key").public_key();
    let mut ring2 = HEAD_RING.to_vec();
    ring2.extend_from_slice(&other);
    ring2.extend_from_slice(&[0xA1, 0x23, 0x03, 0x21, 0x00]);
    ring2.extend_from_slice(&other_pub);
    vec![pkcs8_v1(&KEY_SEED), v2, ring, pkcs8_v1(&other), ring2]
}

fn run_from_der(input: &[u8]) -> Outcome {
    match Ed25519KeyPair::from_der(input, "1".into()) {
        Ok(kp) => {
            let mut d = Dig::new();
            d.dbg(&kp.public_key());
            d.str(kp.version());
            let mut obj: CanonicalJsonObject = BTreeMap::new();
            obj.insert("a".into(), CanonicalJsonValue::String("b".into()));
            d.dbg(&sign_json("example.org", &kp, &mut obj).map_err(|e| e.to_string()));
            d.dbg(&obj);
            d.done()
        }
        Err(e) => rej(e),
    }
}

/// `Ed25519KeyPair::new` on a private key taken from a key file / a PKCS#8 field (raw 32 bytes, or wrapped
/// in an OCTET STRING header `04 20`)
fn run_key_pair_new(input: &[u8]) -> Outcome {
    // Ed25519, 1.3.101.112
    let oid = pkcs8::ObjectIdentifier::new_unwrap("1.3.101.112");
    match Ed25519KeyPair::new(oid, input, None, "1".into()) {
        Ok(kp) => {
            let mut d = Dig::new();
            d.dbg(&kp.public_key());
            d.done()
        }
        Err(e) => rej(e),
    }
}

fn key_pair_new_seeds() -> Vec<Vec<u8>> {
    let raw: Vec<u8> = KEY_SEED.to_vec();
    let mut wrapped = vec![0x04, 0x20];
    wrapped.extend_from_slice(&raw);
    vec![raw, wrapped]
}

/// a wrapped key followed by more bytes (the start of the next PKCS#8 field): rejected, fed as it is
fn key_pair_new_trailing() -> Vec<u8> {
    let mut v = key_pair_new_seeds().swap_remove(1);
    v.extend_from_slice(&[0xA1, 0x23, 0x03, 0x21, 0x00]);
    v
}

fn run_base64(input: &[u8]) -> Outcome {
    let mut d = Dig::new();
    d.dbg(&Base64::<UrlSafe>::parse(input).map(|b| b.encode()).map_err(|e| e.to_string()));
    if let Some(s) = utf8(input) {
        d.dbg(&serde_json::from_value::<Base64>(Value::String(s.to_owned())).map(|b| b.encode()).map_err(|e| e.to_string()));
    }
    let url_safe_ok = Base64::<UrlSafe>::parse(input).is_ok();
    match Base64::<ruma_common::serde::base64::Standard>::parse(input) {
        Ok(v) => {
            d.dbg(&v);
            d.str(&v.encode());
            d.dbg(&v.as_bytes().len());
            d.done()
        }
        Err(_) if url_safe_ok => d.done(),
        Err(e) => rej(e),
    }
}

#[derive(Deserialize)]
struct VerifyJsonIn {
    keys: PublicKeyMap,
    object: CanonicalJsonObject,
}

fn run_verify_json(input: &[u8]) -> Outcome {
    let p: VerifyJsonIn = match serde_json::from_slice(input) {
        Ok(p) => p,
        Err(e) => return rej(e),
    };
    match verify_json(&p.keys, &p.object) {
        Ok(()) => {
            let mut d = Dig::new();
            d.dbg(&p.object);
            d.done()
        }
        Err(e) => rej(e),
    }
}

#[derive(Deserialize)]
struct EventIn {
    #[serde(default)]
    keys: PublicKeyMap,
    event: CanonicalJsonObject,
    room_version: String,
}

fn rules_of(v: &str) -> Option<ruma_common::room_version_rules::RoomVersionRules> {
    RoomVersionId::try_from(v).ok()?.rules()
}

fn run_verify_event(input: &[u8]) -> Outcome {
    let p: EventIn = match serde_json::from_slice(input) {
        Ok(p) => p,
        Err(e) => return rej(e),
    };
    let Some(rules) = rules_of(&p.room_version) else { return rej("unknown room version") };
    match verify_event(&p.keys, &p.event, &rules) {
        Ok(v) => {
            let mut d = Dig::new();
            d.dbg(&v);
            d.done()
        }
        Err(e) => rej(e),
    }
}

fn run_hash_and_sign_event(input: &[u8]) -> Outcome {
    let p: EventIn = match serde_json::from_slice(input) {
        Ok(p) => p,
        Err(e) => return rej(e),
    };
    let Some(rules) = rules_of(&p.room_version) else { return rej("unknown room version") };
    let mut ev = p.event;
    let before = ev.clone();
    match hash_and_sign_event("example.org", key_pair(), &mut ev, &rules.redaction) {
        Ok(()) => {
            let mut d = Dig::new();
            d.dbg(&ev);
            d.done()
        }
        Err(e) => {
            unchanged_after_rejection("hash_and_sign_event", &before, &ev);
            rej(e)
        }
    }
}

/// "a rejected input has no effect on later calls": the object handed in by `&mut` is the caller's state
/// for its later calls; a call that reports an error must leave it as it was. Reported as a panic of the
/// harness (the supervisor has no other channel for a per-input finding).
fn unchanged_after_rejection(api: &str, before: &CanonicalJsonObject, after: &CanonicalJsonObject) {
    if before != after {
        panic!("{api} returned an error but changed the object it was given: {before:?} -> {after:?}");
    }
}

/// `sign_json` on an object a remote party supplied (a server co-signing what it received)
fn run_sign_json_untrusted(input: &[u8]) -> Outcome {
    let mut obj: CanonicalJsonObject = match serde_json::from_slice(input) {
        Ok(o) => o,
        Err(e) => return rej(e),
    };
    let before = obj.clone();
    match sign_json("example.org", key_pair(), &mut obj) {
        Ok(()) => {
            let mut d = Dig::new();
            d.dbg(&obj);
            d.done()
        }
        Err(e) => {
            unchanged_after_rejection("sign_json", &before, &obj);
            rej(e)
        }
    }
}

fn sign_json_untrusted_seeds() -> Vec<Value> {
    vec![
        json!({"k": "v", "n": [1, {"z": null}], "unsigned": {"age": 1}}),
        json!({"k": "v", "signatures": {"example.org": {"ed25519:0": "c3RhbGU"}, "other.org": {"ed25519:1": "b3RoZXI"}}, "unsigned": {"age": 1}}),
        json!({"content": {"signatures": {"x": 1}}, "signatures": {"other.org": {"ed25519:1": "b3RoZXI"}}}),
        json!({}),
    ]
}

fn run_event_hashes(input: &[u8]) -> Outcome {
    let p: EventIn = match serde_json::from_slice(input) {
        Ok(p) => p,
        Err(e) => return rej(e),
    };
    let Some(rules) = rules_of(&p.room_version) else { return rej("unknown room version") };
    let mut d = Dig::new();
    let c = content_hash(&p.event);
    d.dbg(&c.as_ref().map(|h| h.encode()).map_err(|e| e.to_string()));
    for v in ["1", "3", "4", "11"] {
        let r = rules_of(v).expect("rules of a known room version");
        d.dbg(&reference_hash(&p.event, &r).map_err(|e| e.to_string()));
    }
    match (reference_hash(&p.event, &rules), c) {
        (Ok(h), Ok(_)) => {
            d.str(&h);
            d.done()
        }
        (Err(e), _) | (_, Err(e)) => rej(e),
    }
}

fn to_obj(v: &Value) -> CanonicalJsonObject {
    match CanonicalJsonValue::try_from(v.clone()).expect("canonical seed") {
        CanonicalJsonValue::Object(o) => o,
        _ => panic!("seed is not an object"),
    }
}

fn keys_json() -> Value {
    json!({"example.org": {"ed25519:1": public_key_b64()}})
}

fn verify_json_seeds() -> Vec<Value> {
    let objects = vec![
        json!({}),
        json!({"a": "b", "n": 1, "nested": {"x": [1, 2, {"y": null}]}}),
        json!({"unsigned": {"age": 5}, "content": {"body": "é\u{1F600}\n"}, "signatures": {"other.org": {"ed25519:9": "c2ln"}}}),
        json!({"valid_until_ts": 1_652_262_000_000_u64, "server_name": "example.org", "verify_keys": {"ed25519:1": {"key": public_key_b64()}}, "old_verify_keys": {}}),
    ];
    let mut out = vec![];
    for o in objects {
        let mut obj = to_obj(&o);
        sign_json("example.org", key_pair(), &mut obj).expect("sign_json on a seed");
        let mut keys = keys_json();
        if obj.get("signatures").and_then(|s| s.as_object()).is_some_and(|s| s.contains_key("other.org")) {
            // verify_json checks every entity in `signatures`; drop the foreign signature
            if let Some(CanonicalJsonValue::Object(s)) = obj.get_mut("signatures") {
                s.remove("other.org");
            }
            keys = keys_json();
        }
        out.push(json!({"keys": keys, "object": serde_json::to_value(&obj).expect("to_value")}));
    }
    // two keys for the entity, one of them unrelated
    let mut obj = to_obj(&json!({"k": "v"}));
    sign_json("example.org", key_pair(), &mut obj).expect("sign_json on a seed");
    out.push(json!({"keys": {"example.org": {"ed25519:1": public_key_b64(), "ed25519:2": "AAAAAAAAAAAAAAAAAAAAAAAAAAAAAAAAAAAAAAAAAAA"}, "unrelated.org": {}},
                    "object": serde_json::to_value(&obj).expect("to_value")}));
    out
}

fn signed_events() -> Vec<(&'static str, Value)> {
    seeds::hash_events()
        .into_iter()
        .map(|(v, e)| {
            let mut obj = to_obj(&e);
            obj.remove("signatures");
            obj.remove("hashes");
            let rules = rules_of(v).expect("rules");
            hash_and_sign_event("example.org", key_pair(), &mut obj, &rules.redaction).expect("hash_and_sign_event on a seed");
            (v, serde_json::to_value(&obj).expect("to_value"))
        })
        .collect()
}

fn verify_event_seeds() -> Vec<Value> {
    let mut out: Vec<Value> =
        signed_events().into_iter().map(|(v, e)| json!({"keys": keys_json(), "event": e, "room_version": v})).collect();
    // content changed after signing: hash mismatch, still `Verified::Signatures`
    let (v, mut e) = signed_events().swap_remove(1);
    e["content"]["body"] = json!("changed");
    out.push(json!({"keys": keys_json(), "event": e, "room_version": v}));
    out
}

fn event_in_seeds() -> Vec<Value> {
    seeds::hash_events().into_iter().map(|(v, e)| json!({"event": e, "room_version": v})).collect()
}

// ---------------------------------------------------------------------------------------
// HTML

fn run_html_sanitize(input: &[u8]) -> Outcome {
    let Some(s) = utf8(input) else { return Rejected };
    let mut d = Dig::new();
    let strict = sanitize_html(s, HtmlSanitizerMode::Strict, RemoveReplyFallback::Yes);
    d.str(&strict);
    d.str(&sanitize_html(s, HtmlSanitizerMode::Compat, RemoveReplyFallback::No));
    d.str(&sanitize_html(s, HtmlSanitizerMode::Strict, RemoveReplyFallback::No));
    // "rejected" = the strict sanitizer had to change the document
    if strict == s {
        d.done()
    } else {
        Rejected
    }
}

fn run_html_remove_reply_fallback(input: &[u8]) -> Outcome {
    let Some(s) = utf8(input) else { return Rejected };
    let out = remove_html_reply_fallback(s);
    if out == s {
        let mut d = Dig::new();
        d.str(&out);
        d.done()
    } else {
        Rejected
    }
}

fn run_html_parse(input: &[u8]) -> Outcome {
    let Some(s) = utf8(input) else { return Rejected };
    let html = Html::parse(s);
    let mut d = Dig::new();
    let printed = html.to_string();
    d.str(&printed);
    // walk the tree the way a renderer does (explicit stack: the harness must not recurse)
    let mut stack: Vec<ruma_html::NodeRef> = html.children().collect();
    let mut n = 0u32;
    while let Some(node) = stack.pop() {
        n += 1;
        if let Some(el) = node.as_element() {
            let m = el.to_matrix();
            d.dbg(&m.element);
            d.dbg(&m.attrs);
        } else if let Some(t) = node.as_text() {
            d.str(&t.borrow());
        }
        d.dbg(&(node.parent().is_some(), node.next_sibling().is_some(), node.prev_sibling().is_some(), node.has_children()));
        stack.extend(node.children());
    }
    d.dbg(&n);
    html.sanitize_with(&SanitizerConfig::compat().remove_reply_fallback());
    let clean = html.to_string();
    d.str(&clean);
    html.sanitize();
    d.str(&html.to_string());
    // "rejected" = printing the parsed document does not give the input back
    if printed == s {
        d.done()
    } else {
        Rejected
    }
}

fn html_seeds() -> Vec<Vec<u8>> {
    strs(&[
        "hello <b>world</b>",
        "<mx-reply><blockquote><a href=\"https://matrix.to/#/!r:example.org/$e:example.org\">In reply to</a> <a href=\"https://matrix.to/#/@bob:example.org\">@bob:example.org</a><br>hi</blockquote></mx-reply>reply text",
        "<p>a <em>b</em> <strong>c</strong> <code class=\"language-rust\">fn main() {}</code></p><pre><code>x\n  y</code></pre>",
        "<a href=\"https://example.org/?q=1&amp;r=2\" target=\"_blank\" rel=\"noopener\">link</a> <a href=\"mxc://example.org/abc\">m</a> <a href=\"javascript:alert(1)\">bad</a>",
        "<img src=\"mxc://example.org/abc\" alt=\"cat\" title=\"a cat\" width=\"32\" height=\"32\"><img src=\"https://evil.example/x.png\">",
        "<font color=\"#ff0000\" data-mx-color=\"#00ff00\" data-mx-bg-color=\"#0000ff\">colored</font> <span data-mx-spoiler=\"reason\">spoiler</span> <span data-mx-maths=\"x^2\">x²</span>",
        "<ul><li>one</li><li>two<ol start=\"3\"><li>three</li></ol></li></ul><hr><h1>t</h1><h6>s</h6>",
        "<table><caption>c</caption><thead><tr><th>h</th></tr></thead><tbody><tr><td>d</td></tr></tbody></table>",
        "<script>alert(1)</script><style>p{}</style><!-- comment --><div onclick=\"x()\">div</div><unknown>u</unknown>",
        "<details><summary>s</summary>d</details><sup>1</sup><sub>2</sub><del>d</del><s>s</s><u>u</u><i>i</i><br/>&lt;&amp;&gt;&quot;&#x1F600;&nbsp;",
        "<svg><a xlink:href=\"https://e.x/\"><title>t</title></a></svg><math><mi>x</mi></math><strike>old</strike>",
        "plain text with é and \u{1F600}",
        // markup that makes the HTML tree builder call the less common TreeSink operations of ruma-html:
        // adoption agency (formatting element closed across a block: reparent_children), foster parenting
        // (text / elements inside a table: append_before_sibling), merged html / body attributes
        // (add_attrs_if_missing), template contents, remove_from_parent
        "<b><p>text</b> after</p><em><div>one <code>two</code></em> three</div>",
        "<a href=\"https://e.x/1\">1<table><tr><td><a href=\"https://e.x/2\">2</a></td></tr>stray text<b>bold</b></table>tail",
        "<!DOCTYPE html><html lang=\"en\"><head><title>t</title></head><body class=\"a\"><body id=\"b\"><html data-x=\"1\">x<template><p>in</p></template><select><option>o<p>q</select><form><form></form>",
        "<b><i>x</b>y</i><nobr>a<nobr>b</nobr><p><table><p>cell<tr><td><li><dd><h1><h2>x",
    ])
}

// ---------------------------------------------------------------------------------------
// the table

fn entry(
    name: &'static str,
    kind: Kind,
    seeds: Vec<Vec<u8>>,
    extra_bytes: &'static [u8],
    regressions: Vec<Vec<u8>>,
    run: fn(&[u8]) -> Outcome,
) -> Entry {
    // canaries: the first two seeds (accepted) and the first seed cut in half (normally rejected)
    let mut canaries: Vec<Vec<u8>> = seeds.iter().take(2).cloned().collect();
    if let Some(s) = seeds.first() {
        let mut cut = s.len() / 2;
        while cut > 0 && std::str::from_utf8(&s[..cut]).is_err() {
            cut -= 1;
        }
        canaries.push(s[..cut].to_vec());
    }
    Entry { name, kind, seeds, canaries, extra_bytes, regressions, run, never_rejects: false, weight: 1 }
}

const JSON_EXTRA: &[u8] = b"{,]e";
const ID_EXTRA: &[u8] = b"@!#$";
const URI_EXTRA: &[u8] = b"#?&=";
const HEADER_EXTRA: &[u8] = b";=*'";
const GLOB_EXTRA: &[u8] = b"*?.(";
const HTML_EXTRA: &[u8] = b">&='";

pub fn entries() -> Vec<Entry> {
    let mut v = vec![
        entry("any_timeline_event", Kind::Json, bs(seeds::timeline_events()), JSON_EXTRA, vec![], run_event::<AnyTimelineEvent>),
        entry("any_sync_timeline_event", Kind::Json, bs(seeds::sync_timeline_events()), JSON_EXTRA, vec![], run_sync_timeline_event),
        entry("any_state_event", Kind::Json, bs(seeds::state_events()), JSON_EXTRA, vec![], run_event::<AnyStateEvent>),
        entry("any_stripped_state_event", Kind::Json, bs(seeds::stripped_state_events()), JSON_EXTRA, vec![], run_event::<AnyStrippedStateEvent>),
        entry("any_to_device_event", Kind::Json, bs(seeds::to_device_events()), JSON_EXTRA, vec![], run_event::<AnyToDeviceEvent>),
        entry("any_global_account_data_event", Kind::Json, bs(seeds::global_account_data()), JSON_EXTRA, vec![], run_event::<AnyGlobalAccountDataEvent>),
        entry("raw_get_field", Kind::Json, bs(seeds::sync_timeline_events().into_iter().take(8).collect()), JSON_EXTRA, vec![], run_raw_get_field),
        entry(
            "canonical_json_value",
            Kind::Json,
            bs(vec![
                json!({"a": 1, "b": [true, null, "s", {"c": -5}], "é": "\u{1F600}\n\"\\"}),
                json!([1, 2, [3, [4, [5]]]]),
                json!("string"),
                json!(9007199254740991_i64),
                json!(null),
                seeds::timeline_events()[1].clone(),
                seeds::pdu("m.room.message", json!({"msgtype": "m.text", "body": "x"}), None),
            ]),
            JSON_EXTRA,
            vec![],
            run_canonical_json,
        ),
        entry("ruleset", Kind::Json, bs(seeds::ruleset()), JSON_EXTRA, vec![], run_ruleset),
        entry("push_condition", Kind::Json, bs(seeds::push_conditions()), b"{,]e*?<=>", vec![], run_push_condition),
        entry("sync_response", Kind::Json, bs(seeds::sync_responses()), JSON_EXTRA, vec![], run_sync_response),
        entry("send_transaction_request", Kind::Json, bs(seeds::transactions()), JSON_EXTRA, vec![], run_send_transaction),
        entry(
            "get_message_events_query",
            Kind::Text,
            strs(&[
                "dir=b",
                "dir=f&from=t47429-4392820_219380_26003_2265&to=t4&limit=10",
                "from=s3&dir=b&filter=%7B%22types%22%3A%5B%22m.room.message%22%5D%2C%22lazy_load_members%22%3Atrue%7D",
                "dir=b&limit=100&filter=%7B%22not_senders%22:%5B%22@spam:example.org%22%5D,%22contains_url%22:true%7D",
                "dir=f&unknown=1&limit=0",
            ]),
            URI_EXTRA,
            vec![],
            run_messages_query,
        ),
        entry(
            "user_id",
            Kind::Text,
            strs(&["@alice:example.org", "@a:b", "@carl:example.com:8448", "@u_-./=+09:[::1]:80", "@UPPER:1.2.3.4", "@ä:example.org", "@:x", "@a:[2001:db8::ff00:42:8329]"]),
            ID_EXTRA,
            strs(&["alice", "@a:x:+80", "@a::1"]),
            run_user_id,
        ),
        entry(
            "room_id",
            Kind::Text,
            strs(&["!roomA:example.org", "!a:b", "!n8f893n9:example.com:443", "!31hneApxJ_1o-63DmFrpeqnkFfWppnzWso1JvH3ogLM", "!x:[::1]", "!é/?#%:s"]),
            ID_EXTRA,
            vec![],
            run_room_id,
        ),
        entry(
            "room_alias_id",
            Kind::Text,
            strs(&["#room:example.org", "#a:b", "#ruma:example.com:8448", "#:example.org", "#é #?/%:example.org", "#a:[::1]:1"]),
            ID_EXTRA,
            vec![],
            run_room_alias_id,
        ),
        entry(
            "room_or_alias_id",
            Kind::Text,
            strs(&["!roomA:example.org", "#room:example.org", "!a", "#a:b:1", "!x:[::1]", "#é:s"]),
            ID_EXTRA,
            vec![],
            run_room_or_alias_id,
        ),
        entry(
            "event_id",
            Kind::Text,
            strs(&["$Rqnc-F-dvnEYJTyHq_iKxU2bZ1CI92-kuZq3a5lr5Zg", "$ev2:example.org", "$a:b:8448", "$acR1l0raoZnm60CBwAVgqbZqoO/mYU81xysh1u7XcJk", "$é:x", "$x:[::1]"]),
            ID_EXTRA,
            strs(&["$a\0", "$"]),
            run_event_id,
        ),
        entry(
            "server_name",
            Kind::Text,
            strs(&["example.org", "a", "example.org:8448", "1.2.3.4", "1.2.3.4:1", "[::1]", "[2001:db8::ff00:42:8329]:65535", "sub-domain.EXAMPLE.org:0"]),
            b"[].-",
            strs(&["x:+80", "x:000080", "x:99999", ":1"]),
            run_server_name,
        ),
        entry(
            "key_id",
            Kind::Text,
            strs(&[
                "ed25519:JLAFKJWSCS",
                "curve25519:ABCDEF",
                "ed25519:abc_1",
                "signed_curve25519:AAAAHQ",
                "ed25519:Gb9ECWmEzf6FQbrBZ9w7lshQhqowtrbLDFw4rXAxZuE",
                "ed25519:nqOvzeuGWT/sRx3h7+MHoInYj3Uk2LD/unI9kDYcHwk",
                "org.example.alg:device",
                "ed25519:1",
            ]),
            b"_+=.",
            vec![],
            run_key_id,
        ),
        entry(
            "mxc_uri",
            Kind::Text,
            strs(&["mxc://example.org/abcDEF123", "mxc://a/b", "mxc://example.org:8448/media-id_1", "mxc://[::1]/x", "mxc://1.2.3.4:80/AbC"]),
            ID_EXTRA,
            vec![format!("mxc://{}/m", "a".repeat(250)).into_bytes(), format!("mxc://{}/m", "a".repeat(251)).into_bytes()],
            run_mxc_uri,
        ),
        entry("room_version_id", Kind::Text, strs(&["1", "2", "6", "10", "11", "org.example.custom", "12"]), ID_EXTRA, vec![], run_room_version_id),
        entry(
            "misc_id",
            Kind::Text,
            strs(&["secret", "a-b_c.d=e", "0", "ABCDEFGHIJKLMNOPQRSTUVWXYZabcdefghijklmnopqrstuvwxyz0123456789", "nqOvzeuGWT", "1"]),
            b"=+_-",
            vec![],
            run_misc_id,
        ),
        entry(
            "matrix_to_uri",
            Kind::Text,
            strs(&[
                "https://matrix.to/#/@alice:example.org",
                "https://matrix.to/#/%40alice%3Aexample.org",
                "https://matrix.to/#/!roomA:example.org?via=example.org&via=alt.example.org",
                "https://matrix.to/#/%23room%3Aexample.org",
                "https://matrix.to/#/#room:example.org/$ev2:example.org",
                "https://matrix.to/#/!roomA:example.org/$Rqnc-F-dvnEYJTyHq_iKxU2bZ1CI92-kuZq3a5lr5Zg?via=example.org",
                "https://matrix.to/#/%21roomA%3Aexample.org/%24ev2%3Aexample.org?via=a&via=b:8448",
            ]),
            URI_EXTRA,
            strs(&["https://matrix.to/#///$x", "https://matrix.to/#/!x:a///", "https://matrix.to/#/", "https://matrix.to/#/%"]),
            run_matrix_to_uri,
        ),
        entry(
            "matrix_uri",
            Kind::Text,
            strs(&[
                "matrix:u/alice:example.org",
                "matrix:u/alice:example.org?action=chat",
                "matrix:r/room:example.org?action=join",
                "matrix:roomid/roomA:example.org?via=example.org&via=alt.example.org",
                "matrix:r/room:example.org/e/ev2:example.org",
                "matrix:roomid/roomA:example.org/e/Rqnc-F-dvnEYJTyHq_iKxU2bZ1CI92-kuZq3a5lr5Zg?via=example.org&action=join",
                "matrix:u/%C3%A4:example.org?action=org.example.custom",
            ]),
            URI_EXTRA,
            strs(&["matrix:", "matrix:u/", "matrix:roomid//e/", "matrix:u/%"]),
            run_matrix_uri,
        ),
        entry(
            "content_disposition",
            Kind::Bytes,
            strs(&[
                "inline",
                "attachment",
                "attachment; filename=genome.jpeg",
                "attachment; filename=\"my file.txt\"",
                "attachment; filename*=UTF-8''%e2%82%ac%20rates.pdf",
                "attachment; filename=\"EURO rates\"; filename*=utf-8'en'%E2%82%AC%20rates",
                "Attachment ;  FileName = \"a\\\"b\\\\c\" ; size=5",
                "form-data; name=file; filename=\"x\"",
                "x-custom-type;filename=a;filename=b",
            ]),
            HEADER_EXTRA,
            vec![],
            run_content_disposition,
        ),
        entry(
            "x_matrix",
            Kind::Bytes,
            strs(&[
                "X-Matrix origin=origin.hs.example.com,key=\"ed25519:key1\",sig=\"dGVzdA\"",
                "X-Matrix origin=\"origin.hs.example.com\",destination=\"destination.hs.example.com\",key=\"ed25519:key1\",sig=\"dGVzdA==\"",
                "x-matrix origin=a,key=\"ed25519:1\",sig=AAAA,unknown=x",
                "X-Matrix origin=\"[::1]:8448\",destination=\"1.2.3.4\",key=\"ed25519:a_b\",sig=\"dGVzdA+/\"",
                "X-MATRIX origin=o.example, key=\"ed25519:k\", sig=\"c2ln\"",
                "X-Matrix sig=\"c2ln\",key=\"ed25519:k\",origin=\"o.example\",destination=\"d.example:1\"",
            ]),
            b";=*',",
            vec![],
            run_x_matrix,
        ),
        entry("push_get_match", Kind::Json, bs(push_get_match_seeds()), b"{,]e*?.", vec![], run_push_get_match),
        entry(
            "push_pattern",
            Kind::Text,
            strs(&[
                "cat\nthe cat sat",
                "ca*t?s\nthe cartons are here",
                "*\nanything",
                "?\n",
                "@room\nhello @room!",
                "alice\nALICE: hi",
                "a.b(c)[d]{e}+f|g^h$\\i\nxa.b(c)[d]{e}+f|g^h$\\iy",
                "é*\nÉcole été",
                "**??**\nab",
                // literal patterns that start with a multi-byte character and whose first occurrence in
                // the body is followed by a word character
                "ña\nmañana ña",
                "élodie\nles élodies sont la élodie",
                // a rejected occurrence before the accepted one (repeat-ladder grows the run)
                "foo\nfoox foo",
                "a?b\naxb",
            ]),
            GLOB_EXTRA,
            strs(&["a**\nab", "a*b\na\nb"]),
            run_push_pattern,
        ),
        entry("push_insert", Kind::Json, bs(push_insert_seeds()), b"{,]e.*", vec![], run_push_insert),
        entry(
            "push_edit_by_path",
            Kind::Json,
            bs(vec![json!({"kind": "override", "rule_id": "mine"}), json!({"kind": "content", "rule_id": "mine"})]),
            JSON_EXTRA,
            bs(vec![json!({"kind": "content", "rule_id": ".m.rule.contains_user_name"}), json!({"kind": "room", "rule_id": "!r:example.org"}), json!({"kind": "Override", "rule_id": "mine"})]),
            run_push_edit_by_path,
        ),
        entry("verify_json", Kind::Json, bs(verify_json_seeds()), JSON_EXTRA, vec![], run_verify_json),
        entry("verify_event", Kind::Json, bs(verify_event_seeds()), JSON_EXTRA, vec![], run_verify_event),
        entry("hash_and_sign_event", Kind::Json, bs(event_in_seeds()), JSON_EXTRA, vec![], run_hash_and_sign_event),
        entry("event_hashes", Kind::Json, bs(event_in_seeds()), JSON_EXTRA, vec![], run_event_hashes),
        entry("sign_json_untrusted", Kind::Json, bs(sign_json_untrusted_seeds()), JSON_EXTRA, vec![], run_sign_json_untrusted),
        entry(
            "ed25519_key_pair_from_der",
            Kind::Bytes,
            der_seeds(),
            &[0x30, 0xA1, 0x23, 0x03, 0x21, 0x81, 0x04, 0x20],
            vec![vec![0xA1, 0x23, 0x03, 0x21], vec![], vec![0x30], vec![0x30, 0x04, 0xA1, 0x23, 0x03, 0x21]],
            run_from_der,
        ),
        entry("ed25519_key_pair_new", Kind::Bytes, key_pair_new_seeds(), &[0x04, 0x20, 0x21, 0x22], vec![key_pair_new_trailing()], run_key_pair_new),
        entry(
            "base64_parse",
            Kind::Bytes,
            strs(&["", "dGVzdA", "dGVzdA==", "AAAA", "+/+/", "-_-_", "fQpGIW1Snz+pwLZu6sTy2aHy/DYWWTspTJRPyNp0PKkymfIsNffysMl6ObMMFdIJhk6g6pwlIqZ54rxo8SLmAg", "YQ", "YWI="]),
            b"=+-_",
            vec![],
            run_base64,
        ),
    ];
    for e in v.iter_mut() {
        match e.name {
            "push_get_match" => e.weight = 8,
            "verify_event" | "hash_and_sign_event" | "event_hashes" => e.weight = 2,
            _ => {}
        }
    }
    let mut html = |name, run: fn(&[u8]) -> Outcome| {
        let mut e = entry(name, Kind::Html, html_seeds(), HTML_EXTRA, vec![], run);
        e.never_rejects = true;
        e.weight = 4;
        v.push(e);
    };
    html("sanitize_html", run_html_sanitize);
    html("remove_html_reply_fallback", run_html_remove_reply_fallback);
    html("html_parse_print", run_html_parse);
    v
}

pub fn find(name: &str) -> Option<Entry> {
    entries().into_iter().find(|e| e.name == name)
}

//! C17 — entry points for untrusted wire data never panic, abort, exhaust the stack or hang,
//! and a rejected input has no effect on later calls.
//!
//! Fault enumeration: every single mutation (mc_nopanic::mutate) of every valid seed of every
//! entry point (mc_nopanic::entries) is executed by the real ruma code.
//!
//! One binary, three roles:
//!  * supervisor (default): enumerates the inputs of every entry point once to count and
//!    fingerprint them, cuts them into blocks, runs one worker subprocess per block (16 in
//!    parallel), watches each worker's write-ahead log (2 s CPU-time cap per input, 60 s wall backstop), attributes a
//!    crash / hang to the input in flight, confirms it twice in isolation and restarts the worker
//!    behind it;
//!  * `--worker <entry> <start> <end> <wal> <res>`: regenerates the same input stream and runs
//!    inputs start..end in ONE process on a thread with the default 2 MiB stack under
//!    catch_unwind; the index of an input is appended to the log before it runs, its outcome
//!    after; the canaries of the entry point are evaluated at start (fresh process) and again
//!    after every rejected or panicking input;
//!  * `--one <entry>` (input on stdin): one input in a fresh process, canaries before and after;
//!    used for confirmation and for `--replay`.

use std::{
    collections::BTreeMap,
    fs::{self, File, OpenOptions},
    io::{Read, Write},
    path::{Path, PathBuf},
    process::{Command, Stdio},
    sync::{
        atomic::{AtomicUsize, Ordering::Relaxed},
        Mutex,
    },
    time::{Duration, Instant},
};

use engine::{catch, fixed_hash, machinery_error, parse_args, replay_and_exit, Args, Report, Tally, Tier};
use mc_nopanic::{
    entries::{self, Entry, Outcome},
    mutate::{self, for_each_input, input_hash, nth_input},
};
use serde_json::{json, Value};

/// cap per input, measured in CPU time of the worker process (so that a loaded machine does not turn a
/// slow input into a "hang"); `HARD_WALL_CAP` is the wall-clock backstop for a worker that is
/// blocked rather than spinning
const WALL_CAP: Duration = Duration::from_secs(2);
const HARD_WALL_CAP: Duration = Duration::from_secs(60);

/// user + system CPU time of a process so far and whether it is runnable right now (state `R`), from
/// /proc/<pid>/stat (clock ticks are 1/100 s on Linux)
fn cpu_state(pid: u32) -> Option<(Duration, bool)> {
    let stat = fs::read_to_string(format!("/proc/{pid}/stat")).ok()?;
    // the command name (field 2) may contain spaces: fields are counted from the closing parenthesis
    let rest = stat.rsplit_once(')')?.1;
    let f: Vec<&str> = rest.split_whitespace().collect();
    let utime: u64 = f.get(11)?.parse().ok()?;
    let stime: u64 = f.get(12)?.parse().ok()?;
    // a multi-threaded worker: the main thread waits in join while the 2 MiB thread runs, so look at
    // every task of the process
    let mut runnable = f.first() == Some(&"R");
    if let Ok(tasks) = fs::read_dir(format!("/proc/{pid}/task")) {
        for t in tasks.flatten() {
            if let Ok(st) = fs::read_to_string(t.path().join("stat")) {
                if st.rsplit_once(')').map(|x| x.1.trim_start().starts_with('R')).unwrap_or(false) {
                    runnable = true;
                }
            }
        }
    }
    Some((Duration::from_millis((utime + stime) * 10), runnable))
}

fn cpu_time(pid: u32) -> Option<Duration> {
    cpu_state(pid).map(|x| x.0)
}

/// Progress watchdog of one input: a hang is (a) more than `WALL_CAP` of CPU time without a result
/// (spinning; independent of machine load), (b) more than `WALL_CAP` of wall time during which the
/// process was practically never runnable and used no CPU (blocked), or (c) the wall backstop.
struct Watchdog {
    since: Instant,
    cpu0: Duration,
    polls: u32,
    runnable_polls: u32,
}

impl Watchdog {
    fn new(pid: u32) -> Self {
        Watchdog { since: Instant::now(), cpu0: cpu_time(pid).unwrap_or_default(), polls: 0, runnable_polls: 0 }
    }
    fn hung(&mut self, pid: u32) -> bool {
        let wall = self.since.elapsed();
        let Some((cpu, runnable)) = cpu_state(pid) else { return wall > WALL_CAP };
        self.polls += 1;
        if runnable {
            self.runnable_polls += 1;
        }
        let spent = cpu.saturating_sub(self.cpu0);
        spent > WALL_CAP
            || (wall > WALL_CAP && spent < Duration::from_millis(100) && self.runnable_polls * 20 < self.polls)
            || wall > HARD_WALL_CAP
    }
}
/// a worker regenerates the stream up to its block before the first input: separate allowance
const STARTUP_CAP: Duration = Duration::from_secs(180);
/// the stack every input runs on: the default size of a Rust thread
const STACK: usize = 2 * 1024 * 1024;
/// after this many confirmed aborts / hangs of one (entry, class) the class is skipped in that
/// entry (reported as a cap)
const MAX_CONFIRMED_PER_CLASS: usize = 3;
/// detail lines a worker writes per kind (every occurrence is still counted in the log)
const MAX_DETAIL_LINES: u32 = 200;

fn main() {
    let args = parse_args();
    match args.extra.first().map(String::as_str) {
        Some("--worker") => worker_main(&args),
        Some("--one") => one_main(&args),
        Some("--check-seeds") => check_seeds(&args),
        Some("--dump") => dump(&args),
        Some(other) => machinery_error(&format!("unknown argument {other}")),
        None => {}
    }
    if let Some(p) = &args.replay {
        replay_and_exit("C17", p, replay_eval);
    }
    supervisor(&args);
}

// =======================================================================================
// running one input (worker side)

/// what one call of an entry point did
#[derive(Clone, Debug, PartialEq, Eq)]
enum Ran {
    Out(Outcome),
    /// panic: (file, text)
    Panic(String, String),
}

impl Ran {
    fn show(&self) -> String {
        match self {
            Ran::Out(o) => o.show(),
            Ran::Panic(f, _) => format!("panic:{f}"),
        }
    }
}

/// `crates/<crate>/src/...` for files of the tree under test wherever it is checked out
fn norm_file(f: &str) -> String {
    match f.find("/crates/ruma") {
        Some(i) => f[i + 1..].to_owned(),
        None => f.to_owned(),
    }
}

fn run_caught(e: &Entry, input: &[u8]) -> Ran {
    match catch(|| (e.run)(input)) {
        Ok(o) => Ran::Out(o),
        Err(p) => {
            let file = norm_file(p.file());
            // the one finding the entry functions report themselves (entries.rs, unchanged_after_rejection):
            // "a rejected input has no effect on later calls" for the object handed in by `&mut`
            if p.text.contains("returned an error but changed the object it was given") {
                return Ran::Panic("rejected-input-changed-its-argument".into(), p.text);
            }
            if file.starts_with("mc-nopanic/") || file.contains("/verif/mc/") || file.starts_with("engine/") {
                machinery_error(&format!("the harness itself panicked: {}", p.text));
            }
            Ran::Panic(file, p.text)
        }
    }
}

fn on_input_stack<T: Send + 'static>(f: impl FnOnce() -> T + Send + 'static) -> T {
    let h = std::thread::Builder::new()
        .name("input".into())
        .stack_size(STACK)
        .spawn(f)
        .unwrap_or_else(|e| machinery_error(&format!("cannot spawn the input thread: {e}")));
    match h.join() {
        Ok(v) => v,
        Err(_) => machinery_error("the input thread panicked outside catch_unwind"),
    }
}

/// Canary outcomes in this (fresh) process. An accepted canary is evaluated a second time to
/// make sure its digest is reproducible (a harness matter); a rejected canary is not: "reject
/// it once, then look again" is part of what the check itself observes (`canary_change`).
fn fresh_canaries(e: &Entry) -> Vec<Ran> {
    e.canaries
        .iter()
        .map(|c| {
            let a = run_caught(e, c);
            if matches!(a, Ran::Out(Outcome::Accepted(_))) {
                let b = run_caught(e, c);
                if a != b {
                    machinery_error(&format!(
                        "{}: an accepted canary gives {} and then {} in a fresh process (unstable digest)",
                        e.name,
                        a.show(),
                        b.show()
                    ));
                }
            }
            a
        })
        .collect()
}

/// number of entry-point calls `fresh_canaries` made
fn fresh_canary_calls(base: &[Ran]) -> u64 {
    base.iter().map(|r| if matches!(r, Ran::Out(Outcome::Accepted(_))) { 2 } else { 1 }).sum()
}

/// Re-evaluate all canaries; the first one that changed.
fn canary_change(e: &Entry, base: &[Ran]) -> Option<(usize, Ran)> {
    let mut first = None;
    for (i, c) in e.canaries.iter().enumerate() {
        let now = run_caught(e, c);
        if now != base[i] && first.is_none() {
            first = Some((i, now));
        }
    }
    first
}

fn tab_free(s: &str) -> String {
    s.replace(['\t', '\n', '\r'], " ")
}

// =======================================================================================
// worker

fn worker_main(args: &Args) -> ! {
    let x = &args.extra;
    if x.len() < 6 {
        machinery_error("usage: --worker <entry> <start> <end> <wal> <res> [--skip a,b]");
    }
    let name = x[1].clone();
    let start: u64 = x[2].parse().unwrap_or_else(|_| machinery_error("bad start"));
    let end: u64 = x[3].parse().unwrap_or_else(|_| machinery_error("bad end"));
    let wal_path = PathBuf::from(&x[4]);
    let res_path = PathBuf::from(&x[5]);
    let skip: Vec<String> = match x.get(6).map(String::as_str) {
        Some("--skip") => x.get(7).map(|s| s.split(',').map(str::to_owned).collect()).unwrap_or_default(),
        _ => vec![],
    };
    let tier = args.tier;
    on_input_stack(move || worker_body(&name, start, end, &wal_path, &res_path, &skip, tier));
    std::process::exit(0)
}

fn worker_body(name: &str, start: u64, end: u64, wal_path: &Path, res_path: &Path, skip: &[String], tier: Tier) {
    let e = entries::find(name).unwrap_or_else(|| machinery_error(&format!("unknown entry point {name}")));
    let mut wal = OpenOptions::new().create(true).append(true).open(wal_path).unwrap_or_else(|e| machinery_error(&format!("wal: {e}")));
    let mut res = OpenOptions::new().create(true).append(true).open(res_path).unwrap_or_else(|e| machinery_error(&format!("res: {e}")));
    let base = fresh_canaries(&e);
    let _ = writeln!(res, "CANARY\t{}", base.iter().map(Ran::show).collect::<Vec<_>>().join("\t"));
    let mut rolling = 0u64;
    let mut calls = fresh_canary_calls(&base);
    let mut n = 0u64;
    let mut line = String::new();
    let mut panic_lines = 0u32;
    let mut stateful_lines = 0u32;
    for_each_input(&e.family(), tier, &mut |idx, class, input| {
        if idx < start {
            return true;
        }
        if idx >= end {
            return false;
        }
        n += 1;
        let h = input_hash(input);
        rolling = fixed_hash(&(rolling, h));
        if skip.iter().any(|s| s == class) {
            let _ = wal.write_all(format!("{idx}K\n").as_bytes());
            return true;
        }
        // write-ahead: the index reaches the kernel before the input runs
        line.clear();
        line.push_str(&idx.to_string());
        if wal.write_all(line.as_bytes()).is_err() {
            machinery_error("cannot write the write-ahead log");
        }
        let ran = run_caught(&e, input);
        calls += 1;
        let mut mark = match &ran {
            Ran::Out(Outcome::Accepted(_)) => 'A',
            Ran::Out(Outcome::Rejected) => 'R',
            Ran::Panic(file, text) => {
                panic_lines += 1;
                if panic_lines <= MAX_DETAIL_LINES {
                    let _ = writeln!(res, "PANIC\t{idx}\t{h}\t{class}\t{}\t{}", tab_free(file), tab_free(text));
                }
                'P'
            }
        };
        if class == "seed" && mark == 'R' && !e.never_rejects {
            let _ = writeln!(res, "SEEDREJ\t{idx}");
        }
        if mark != 'A' || e.never_rejects {
            calls += e.canaries.len() as u64;
            if let Some((ci, now)) = canary_change(&e, &base) {
                stateful_lines += 1;
                if stateful_lines <= MAX_DETAIL_LINES {
                    let _ = writeln!(res, "STATEFUL\t{idx}\t{h}\t{class}\t{ci}\t{}\t{}", base[ci].show(), now.show());
                }
                mark = if mark == 'P' { 'Q' } else { 'S' };
                // later inputs are compared with the fresh-process outcomes all the same; if the
                // change persists every one of them reports it (same signature)
            }
        }
        let _ = wal.write_all(&[mark as u8, b'\n']);
        true
    });
    let _ = writeln!(res, "END\t{rolling}\t{n}\t{calls}");
}

// =======================================================================================
// one input in a fresh process

fn read_stdin() -> Vec<u8> {
    let mut v = vec![];
    if std::io::stdin().read_to_end(&mut v).is_err() {
        machinery_error("cannot read stdin");
    }
    v
}

fn one_main(args: &Args) -> ! {
    let name = args.extra.get(1).cloned().unwrap_or_default();
    let input = read_stdin();
    let explain = args.extra.iter().any(|a| a == "--explain");
    let line = on_input_stack(move || {
        let e = entries::find(&name).unwrap_or_else(|| machinery_error(&format!("unknown entry point {name}")));
        let base = fresh_canaries(&e);
        entries::set_explain(explain);
        let ran = run_caught(&e, &input);
        let changed = canary_change(&e, &base);
        let v = match (&ran, changed) {
            (_, Some((ci, now))) => json!({"verdict": "stateful", "canary": ci, "before": base[ci].show(), "after": now.show(), "ran": ran.show()}),
            (Ran::Out(o), None) => json!({"verdict": "ok", "outcome": o.show()}),
            (Ran::Panic(f, t), None) => json!({"verdict": "panic", "file": f, "text": t}),
        };
        v.to_string()
    });
    println!("VERDICT {line}");
    std::process::exit(0)
}

fn check_seeds(args: &Args) -> ! {
    let only = args.extra.get(1).cloned();
    entries::set_explain(true);
    let mut bad = 0;
    for e in entries::entries() {
        if only.as_deref().is_some_and(|o| o != e.name) {
            continue;
        }
        let mut acc = 0;
        for (i, s) in e.seeds.iter().enumerate() {
            eprintln!("{} seed {i}: {}", e.name, engine::truncate(&String::from_utf8_lossy(s), 160));
            match run_caught(&e, s) {
                Ran::Out(Outcome::Accepted(_)) => acc += 1,
                other => {
                    if !e.never_rejects {
                        bad += 1;
                    }
                    println!("{} seed {i}: {}  <- {}", e.name, other.show(), engine::truncate(&String::from_utf8_lossy(s), 300));
                }
            }
        }
        let can: Vec<String> = e.canaries.iter().map(|c| run_caught(&e, c).show()).collect();
        println!("{}: {} seeds, {} accepted, canaries {:?}", e.name, e.seeds.len(), acc, can);
    }
    std::process::exit(if bad == 0 { 0 } else { 2 })
}

/// `--dump <entry> [n]`: print the first n inputs (debugging aid)
fn dump(args: &Args) -> ! {
    let name = args.extra.get(1).cloned().unwrap_or_default();
    let n: u64 = args.extra.get(2).and_then(|s| s.parse().ok()).unwrap_or(50);
    let e = entries::find(&name).unwrap_or_else(|| machinery_error("unknown entry"));
    let total = for_each_input(&e.family(), args.tier, &mut |i, class, b| {
        if i < n {
            println!("{i}\t{class}\t{}", engine::truncate(&String::from_utf8_lossy(b), 200));
        }
        true
    });
    println!("total {total}");
    std::process::exit(0)
}

// =======================================================================================
// supervisor

#[derive(Clone, Debug, PartialEq, Eq)]
enum Verdict {
    Ok(String),
    Panic(String, String),
    Stateful(String),
    /// killed by a signal / non-zero exit (stack overflow, abort, out of memory)
    Abort(String),
    Hang,
}

impl Verdict {
    fn kind(&self) -> &'static str {
        match self {
            Verdict::Ok(_) => "ok",
            Verdict::Panic(..) => "panic",
            Verdict::Stateful(_) => "stateful",
            Verdict::Abort(_) => "abort",
            Verdict::Hang => "hang",
        }
    }
    fn sig(&self, entry: &str, class: &str) -> Option<String> {
        match self {
            Verdict::Ok(_) => None,
            Verdict::Panic(file, _) => Some(format!("panic/{entry}/{file}")),
            Verdict::Stateful(_) => Some(format!("stateful/{entry}")),
            Verdict::Abort(_) => Some(format!("abort/{entry}/{class}")),
            Verdict::Hang => Some(format!("hang/{entry}/{class}")),
        }
    }
    fn detail(&self) -> String {
        match self {
            Verdict::Ok(o) => o.clone(),
            Verdict::Panic(f, t) => format!("panic at {f}: {t}"),
            Verdict::Stateful(d) => format!("canary outcome changed: {d}"),
            Verdict::Abort(d) => format!("process died: {d}"),
            Verdict::Hang => format!("no result within {} s", WALL_CAP.as_secs()),
        }
    }
}

fn exe() -> PathBuf {
    std::env::current_exe().unwrap_or_else(|e| machinery_error(&format!("current_exe: {e}")))
}

fn describe_status(st: &std::process::ExitStatus, stderr_tail: &str) -> String {
    use std::os::unix::process::ExitStatusExt;
    let what = match (st.code(), st.signal()) {
        (Some(c), _) => format!("exit code {c}"),
        (None, Some(s)) => format!("signal {s}"),
        _ => "unknown status".into(),
    };
    let tail = stderr_tail.trim();
    if tail.is_empty() {
        what
    } else {
        format!("{what}; stderr: {}", engine::truncate(&tab_free(tail), 300))
    }
}

/// Run one input in a fresh process (2 s cap + start-up grace).
fn run_one(entry: &str, input: &[u8], tier: Tier) -> Verdict {
    let mut child = Command::new(exe())
        .args(["--one", entry, "--tier", tier.as_str()])
        .stdin(Stdio::piped())
        .stdout(Stdio::piped())
        .stderr(Stdio::piped())
        .spawn()
        .unwrap_or_else(|e| machinery_error(&format!("cannot spawn --one: {e}")));
    let mut stdin = child.stdin.take().expect("stdin");
    let data = input.to_vec();
    let writer = std::thread::spawn(move || {
        let _ = stdin.write_all(&data);
    });
    let mut stdout = child.stdout.take().expect("stdout");
    let mut stderr = child.stderr.take().expect("stderr");
    let out_reader = std::thread::spawn(move || {
        let mut s = String::new();
        let _ = stdout.read_to_string(&mut s);
        s
    });
    let err_reader = std::thread::spawn(move || {
        let mut s = vec![];
        let _ = stderr.read_to_end(&mut s);
        String::from_utf8_lossy(&s).into_owned()
    });
    let t0 = Instant::now();
    let cap = WALL_CAP + Duration::from_millis(1000);
    let pid = child.id();
    let _ = (t0, cap);
    let mut dog = Watchdog::new(pid);
    let status = loop {
        match child.try_wait() {
            Ok(Some(st)) => break Some(st),
            Ok(None) => {
                if dog.hung(pid) {
                    let _ = child.kill();
                    let _ = child.wait();
                    break None;
                }
                std::thread::sleep(Duration::from_millis(2));
            }
            Err(e) => machinery_error(&format!("wait: {e}")),
        }
    };
    let _ = writer.join();
    let out = out_reader.join().unwrap_or_default();
    let err = err_reader.join().unwrap_or_default();
    let Some(st) = status else { return Verdict::Hang };
    if st.code() == Some(2) && err.contains("MACHINERY-ERROR") {
        machinery_error(&format!("--one {entry}: {}", err.trim()));
    }
    if !st.success() {
        return Verdict::Abort(describe_status(&st, &err));
    }
    let Some(line) = out.lines().find_map(|l| l.strip_prefix("VERDICT ")) else {
        machinery_error(&format!("--one {entry}: no verdict line: {out:?} {err:?}"));
    };
    let v: Value = serde_json::from_str(line).unwrap_or_else(|e| machinery_error(&format!("bad verdict line: {e}")));
    let g = |k: &str| v.get(k).and_then(Value::as_str).unwrap_or("").to_owned();
    match g("verdict").as_str() {
        "ok" => Verdict::Ok(g("outcome")),
        "panic" => Verdict::Panic(g("file"), g("text")),
        "stateful" => Verdict::Stateful(format!("canary {} was {} is {} after an input that {}", v["canary"], g("before"), g("after"), g("ran"))),
        other => machinery_error(&format!("unknown verdict {other}")),
    }
}

fn hex(b: &[u8]) -> String {
    const D: &[u8; 16] = b"0123456789abcdef";
    let mut s = String::with_capacity(b.len() * 2);
    for x in b {
        s.push(D[(x >> 4) as usize] as char);
        s.push(D[(x & 15) as usize] as char);
    }
    s
}

fn unhex(s: &str) -> Vec<u8> {
    let s = s.as_bytes();
    (0..s.len() / 2)
        .map(|i| {
            let d = |c: u8| (c as char).to_digit(16).unwrap_or(0) as u8;
            d(s[2 * i]) << 4 | d(s[2 * i + 1])
        })
        .collect()
}

fn case_json(entry: &str, class: &str, input: &[u8]) -> Value {
    json!({
        "entry": entry,
        "class": class,
        "len": input.len(),
        "input_preview": engine::truncate(&String::from_utf8_lossy(input), 400),
        "input_hex": hex(input),
    })
}

fn replay_eval(case: &Value) -> Vec<(String, String)> {
    let entry = case["entry"].as_str().unwrap_or("");
    let class = case["class"].as_str().unwrap_or("replay");
    let input = unhex(case["input_hex"].as_str().unwrap_or(""));
    if entries::find(entry).is_none() {
        machinery_error(&format!("replay: unknown entry point {entry:?}"));
    }
    let v = run_one(entry, &input, Tier::Quick);
    if let Some(sig) = v.sig(entry, class) {
        return vec![(sig, v.detail())];
    }
    // a canary change may need the inputs that ran before in the same process
    if let Some(seq) = case.get("sequence") {
        let tier = if seq["tier"].as_str() == Some("thorough") { Tier::Thorough } else { Tier::Quick };
        let (start, end) = (seq["start"].as_u64().unwrap_or(0), seq["end"].as_u64().unwrap_or(0));
        return replay_sequence(entry, tier, start, end);
    }
    vec![]
}

/// Re-run inputs start..end of an entry point in one worker process; report a canary change.
fn replay_sequence(entry: &str, tier: Tier, start: u64, end: u64) -> Vec<(String, String)> {
    let dir = PathBuf::from(engine::out_root()).join("target/c17").join(format!("replay-{}", std::process::id()));
    fs::create_dir_all(&dir).unwrap_or_else(|e| machinery_error(&format!("{dir:?}: {e}")));
    let (wal, res) = (dir.join("r.wal"), dir.join("r.res"));
    let _ = fs::remove_file(&wal);
    let _ = fs::remove_file(&res);
    let out = Command::new(exe())
        .args(["--worker", entry, &start.to_string(), &end.to_string()])
        .arg(&wal)
        .arg(&res)
        .args(["--tier", tier.as_str()])
        .stdin(Stdio::null())
        .output()
        .unwrap_or_else(|e| machinery_error(&format!("cannot spawn worker: {e}")));
    let text = fs::read_to_string(&res).unwrap_or_default();
    let _ = fs::remove_dir_all(&dir);
    if !out.status.success() {
        machinery_error(&format!("replay of the sequence {entry} [{start},{end}) died: {}", String::from_utf8_lossy(&out.stderr)));
    }
    for l in text.lines() {
        let f: Vec<&str> = l.split('\t').collect();
        if f[0] == "STATEFUL" && f.len() >= 7 {
            return vec![(
                format!("stateful/{entry}"),
                format!("after input #{} of the sequence [{start},{end}) canary {} was {} is {}", f[1], f[4], f[5], f[6]),
            )];
        }
    }
    vec![]
}

struct Block {
    start: u64,
    end: u64,
    hash: u64,
}

struct Plan {
    entry: Entry,
    count: u64,
    blocks: Vec<Block>,
    classes: BTreeMap<&'static str, u64>,
    bytes: u64,
}

fn plan_entry(entry: Entry, tier: Tier, block: u64) -> Plan {
    let mut blocks = vec![];
    let mut classes: BTreeMap<&'static str, u64> = BTreeMap::new();
    let mut rolling = 0u64;
    let mut bstart = 0u64;
    let mut bytes = 0u64;
    let count = for_each_input(&entry.family(), tier, &mut |idx, class, input| {
        if idx - bstart == (block / entry.weight).max(1) {
            blocks.push(Block { start: bstart, end: idx, hash: rolling });
            bstart = idx;
            rolling = 0;
        }
        rolling = fixed_hash(&(rolling, input_hash(input)));
        *classes.entry(class).or_default() += 1;
        bytes += input.len() as u64;
        true
    });
    if count > bstart {
        blocks.push(Block { start: bstart, end: count, hash: rolling });
    }
    Plan { entry, count, blocks, classes, bytes }
}

struct Finding {
    verdict: Verdict,
    idx: u64,
    class: String,
    /// first index of the sequence the worker process ran before it (stateful findings: the
    /// replay needs the sequence, not only the last input)
    seq_start: u64,
}

#[derive(Default)]
struct JobOut {
    accepted: u64,
    rejected: u64,
    panicked: u64,
    skipped: u64,
    calls: u64,
    isolation_runs: u64,
    /// (verdict, index, class) — class is filled in by the worker's line or the regenerated input
    findings: Vec<Finding>,
    canary_lines: Vec<String>,
    seed_rejected: Vec<u64>,
    capped: Vec<String>,
}

struct WalState {
    /// completed inputs: mark per index
    done: Vec<(u64, u8)>,
    in_flight: Option<u64>,
}

fn parse_wal(path: &Path) -> WalState {
    let data = fs::read(path).unwrap_or_default();
    let mut done = vec![];
    let mut in_flight = None;
    for line in data.split(|&b| b == b'\n') {
        if line.is_empty() {
            continue;
        }
        let digits = line.iter().take_while(|b| b.is_ascii_digit()).count();
        let idx: u64 = std::str::from_utf8(&line[..digits]).ok().and_then(|s| s.parse().ok()).unwrap_or_else(|| machinery_error("corrupt write-ahead log"));
        match line.get(digits) {
            Some(&m) => done.push((idx, m)),
            None => in_flight = Some(idx),
        }
    }
    // a line without newline but with a mark cannot happen (mark and newline are one write)
    WalState { done, in_flight }
}

fn run_block(plan: &Plan, block: &Block, tier: Tier, dir: &Path, job_id: usize) -> JobOut {
    let e = &plan.entry;
    let mut out = JobOut::default();
    let mut start = block.start;
    let mut attempt = 0;
    let mut skip: Vec<String> = vec![];
    let mut confirmed: BTreeMap<String, usize> = BTreeMap::new();
    let n_can = e.canaries.len() as u64;
    loop {
        attempt += 1;
        let wal_path = dir.join(format!("{}.{job_id}.{attempt}.wal", e.name));
        let res_path = dir.join(format!("{}.{job_id}.{attempt}.res", e.name));
        let err_path = dir.join(format!("{}.{job_id}.{attempt}.err", e.name));
        let _ = fs::remove_file(&wal_path);
        let _ = fs::remove_file(&res_path);
        let errf = File::create(&err_path).unwrap_or_else(|e| machinery_error(&format!("{err_path:?}: {e}")));
        let mut cmd = Command::new(exe());
        cmd.args(["--worker", e.name, &start.to_string(), &block.end.to_string()])
            .arg(&wal_path)
            .arg(&res_path);
        if !skip.is_empty() {
            cmd.args(["--skip", &skip.join(",")]);
        }
        cmd.args(["--tier", tier.as_str()]).stdin(Stdio::null()).stdout(Stdio::null()).stderr(errf);
        let mut child = cmd.spawn().unwrap_or_else(|e| machinery_error(&format!("cannot spawn worker: {e}")));
        // watch the log
        let mut last_len = 0u64;
        let mut last_change = Instant::now();
        let pid = child.id();
        let mut dog = Watchdog::new(pid);
        let mut hung = false;
        let status = loop {
            match child.try_wait() {
                Ok(Some(st)) => break st,
                Ok(None) => {}
                Err(e) => machinery_error(&format!("wait: {e}")),
            }
            let len = fs::metadata(&wal_path).map(|m| m.len()).unwrap_or(0);
            if len != last_len {
                last_len = len;
                last_change = Instant::now();
                dog = Watchdog::new(pid);
            } else {
                let over = if len == 0 { last_change.elapsed() > STARTUP_CAP } else { dog.hung(pid) };
                if over {
                    // make sure it is an input that is stuck, not the stream generator between inputs
                    let _ = child.kill();
                    let st = child.wait().unwrap_or_else(|e| machinery_error(&format!("wait: {e}")));
                    hung = true;
                    break st;
                }
            }
            std::thread::sleep(Duration::from_millis(4));
        };
        let wal = parse_wal(&wal_path);
        let res_text = fs::read_to_string(&res_path).unwrap_or_default();
        let err_text = fs::read_to_string(&err_path).unwrap_or_default();
        if status.code() == Some(2) && err_text.contains("MACHINERY-ERROR") {
            machinery_error(&format!("worker {} [{start},{}): {}", e.name, block.end, err_text.trim()));
        }
        // account for what completed
        let mut recheck = 0u64;
        for &(_, m) in &wal.done {
            match m {
                b'A' => out.accepted += 1,
                b'R' | b'S' => out.rejected += 1,
                b'P' | b'Q' => out.panicked += 1,
                b'K' => out.skipped += 1,
                _ => machinery_error("unknown mark in the write-ahead log"),
            }
            if m != b'K' {
                out.calls += 1;
                if m != b'A' || e.never_rejects {
                    recheck += 1;
                }
            }
        }
        out.calls += recheck * n_can;
        let mut end_line = None;
        for l in res_text.lines() {
            let f: Vec<&str> = l.split('\t').collect();
            match f[0] {
                "CANARY" => {
                    out.calls += f[1..].iter().map(|c| if c.starts_with("accepted") { 2 } else { 1 }).sum::<u64>();
                    out.canary_lines.push(l.to_owned());
                }
                "PANIC" if f.len() >= 6 => {
                    out.findings.push(Finding {
                        verdict: Verdict::Panic(f[4].to_owned(), f[5].to_owned()),
                        idx: f[1].parse().unwrap_or(0),
                        class: f[3].to_owned(),
                        seq_start: start,
                    });
                }
                "STATEFUL" if f.len() >= 7 => {
                    out.findings.push(Finding {
                        verdict: Verdict::Stateful(format!("canary {} was {} is {} (in the worker's sequence starting at input #{start})", f[4], f[5], f[6])),
                        idx: f[1].parse().unwrap_or(0),
                        class: f[3].to_owned(),
                        seq_start: start,
                    });
                }
                "SEEDREJ" if f.len() >= 2 => out.seed_rejected.push(f[1].parse().unwrap_or(0)),
                "END" if f.len() >= 4 => end_line = Some((f[1].parse::<u64>().unwrap_or(0), f[2].parse::<u64>().unwrap_or(0), f[3].parse::<u64>().unwrap_or(0))),
                _ => machinery_error(&format!("worker {}: bad result line {l:?}", e.name)),
            }
        }
        if status.success() && !hung {
            let Some((hash, n, worker_calls)) = end_line else {
                machinery_error(&format!("worker {} [{start},{}) exited 0 without END", e.name, block.end));
            };
            if wal.in_flight.is_some() {
                machinery_error("worker exited 0 with an input in flight");
            }
            if start == block.start && (hash != block.hash || n != block.end - block.start) {
                machinery_error(&format!(
                    "{}: the worker's input stream differs from the supervisor's in block [{},{}) (generator not deterministic)",
                    e.name, block.start, block.end
                ));
            }
            // the worker counts its calls itself; the supervisor derived the same number from the log
            let derived = wal.done.iter().filter(|d| d.1 != b'K').count() as u64
                + recheck * n_can
                + res_text.lines().filter_map(|l| l.strip_prefix("CANARY\t")).map(|l| l.split('\t').map(|c| if c.starts_with("accepted") { 2 } else { 1 }).sum::<u64>()).sum::<u64>();
            if derived != worker_calls {
                machinery_error(&format!("{}: the worker counted {worker_calls} calls, the log gives {derived}", e.name));
            }
            for f in [&wal_path, &res_path, &err_path] {
                let _ = fs::remove_file(f);
            }
            return out;
        }
        // the worker died or hung: attribute to the input in flight
        let Some(idx) = wal.in_flight else {
            machinery_error(&format!(
                "worker {} [{start},{}) died outside an input ({}); stderr: {}",
                e.name,
                block.end,
                describe_status(&status, ""),
                engine::truncate(err_text.trim(), 400)
            ));
        };
        let in_seq = if hung { Verdict::Hang } else { Verdict::Abort(describe_status(&status, &err_text)) };
        let Some((class, input)) = nth_input(&e.family(), tier, idx) else {
            machinery_error(&format!("{}: input {idx} in flight does not exist", e.name));
        };
        // confirm twice in isolation
        let a = run_one(e.name, &input, tier);
        let b = run_one(e.name, &input, tier);
        out.isolation_runs += 2;
        if a.kind() != b.kind() {
            machinery_error(&format!(
                "{} input {idx} ({class}): {} in the worker, then {} and {} in isolation: not reproducible",
                e.name,
                in_seq.kind(),
                a.kind(),
                b.kind()
            ));
        }
        if matches!(a, Verdict::Ok(_)) {
            machinery_error(&format!(
                "{} input {idx} ({class}): {} in the worker's sequence but fine twice in isolation (input hex {})",
                e.name,
                in_seq.detail(),
                engine::truncate(&hex(&input), 200)
            ));
        }
        out.findings.push(Finding { verdict: a.clone(), idx, class: class.to_owned(), seq_start: idx });
        let key = format!("{}/{class}", a.kind());
        let c = confirmed.entry(key).or_default();
        *c += 1;
        if *c >= MAX_CONFIRMED_PER_CLASS && !skip.iter().any(|s| s == class) {
            skip.push(class.to_owned());
            out.capped.push(format!(
                "{}: class {class} skipped in block [{},{}) after {MAX_CONFIRMED_PER_CLASS} confirmed {} verdicts",
                e.name,
                block.start,
                block.end,
                a.kind()
            ));
        }
        start = idx + 1;
        if start >= block.end {
            return out;
        }
    }
}

fn supervisor(args: &Args) -> ! {
    let tier = args.tier;
    let report = Report::new("C17", "fault_enumeration", args);
    let dir = match std::env::var("VERIF_OUT") {
        Ok(o) => PathBuf::from(o).join("c17-work"),
        Err(_) => PathBuf::from(engine::VERIF_ROOT).join("target/c17"),
    }
    .join(format!("{}-{}", tier.as_str(), std::process::id()));
    fs::create_dir_all(&dir).unwrap_or_else(|e| machinery_error(&format!("{dir:?}: {e}")));

    // 1. enumerate every family once: counts, block fingerprints
    let block = tier.pick(8_192u64, 32_768u64);
    let all = entries::entries();
    let n_entries = all.len();
    let slots: Vec<Mutex<Option<Entry>>> = all.into_iter().map(|e| Mutex::new(Some(e))).collect();
    let plans: Vec<Mutex<Option<Plan>>> = (0..n_entries).map(|_| Mutex::new(None)).collect();
    engine::par_shards(&report, n_entries, |i, _| {
        let e = slots[i].lock().unwrap().take().expect("entry");
        *plans[i].lock().unwrap() = Some(plan_entry(e, tier, block));
    });
    let mut plans: Vec<Plan> = plans.into_iter().map(|m| m.into_inner().unwrap().expect("plan")).collect();
    plans.sort_by(|a, b| (b.bytes * b.entry.weight).cmp(&(a.bytes * a.entry.weight)));
    let t_plan = report.elapsed_s();

    // 2. one worker per block, 16 at a time
    let jobs: Vec<(usize, usize)> = {
        // round-robin over the entries so that the blocks of one large entry do not all run last
        let mut v = vec![];
        let max_blocks = plans.iter().map(|p| p.blocks.len()).max().unwrap_or(0);
        for b in 0..max_blocks {
            for (pi, p) in plans.iter().enumerate() {
                if b < p.blocks.len() {
                    v.push((pi, b));
                }
            }
        }
        v
    };
    let next = AtomicUsize::new(0);
    let outs: Vec<Mutex<Vec<JobOut>>> = (0..plans.len()).map(|_| Mutex::new(vec![])).collect();
    std::thread::scope(|s| {
        for _ in 0..engine::n_threads().min(jobs.len().max(1)) {
            s.spawn(|| loop {
                let j = next.fetch_add(1, Relaxed);
                if j >= jobs.len() {
                    break;
                }
                let (pi, bi) = jobs[j];
                let t0 = Instant::now();
                let out = run_block(&plans[pi], &plans[pi].blocks[bi], tier, &dir, j);
                if std::env::var_os("VERIF_C17_TRACE").is_some() {
                    eprintln!("job {j} {} block {bi} [{}..{}) took {:.1}s (finished at {:.1}s)", plans[pi].entry.name, plans[pi].blocks[bi].start, plans[pi].blocks[bi].end, t0.elapsed().as_secs_f64(), report.elapsed_s());
                }
                outs[pi].lock().unwrap().push(out);
            });
        }
    });

    // 3. verdicts
    let mut t = Tally::new();
    let mut table = serde_json::Map::new();
    let mut total_seeds = 0u64;
    let mut total_isolation = 0u64;
    for (pi, p) in plans.iter().enumerate() {
        let e = &p.entry;
        let outs = std::mem::take(&mut *outs[pi].lock().unwrap());
        let mut acc = 0;
        let mut rej = 0;
        let mut pan = 0;
        let mut skipped = 0;
        let mut calls = 0;
        let mut canary_lines: Vec<String> = vec![];
        for o in &outs {
            acc += o.accepted;
            rej += o.rejected;
            pan += o.panicked;
            skipped += o.skipped;
            calls += o.calls;
            total_isolation += o.isolation_runs;
            canary_lines.extend(o.canary_lines.iter().cloned());
            for c in &o.capped {
                report.capped(c);
            }
            if !o.seed_rejected.is_empty() {
                machinery_error(&format!("{}: seed(s) {:?} rejected by the entry point: the seed family is not valid", e.name, o.seed_rejected));
            }
        }
        // every fresh process must see the same canary outcomes
        canary_lines.sort();
        canary_lines.dedup();
        if canary_lines.len() > 1 {
            machinery_error(&format!("{}: canary outcomes differ between fresh processes: {canary_lines:?}", e.name));
        }
        let aborted = outs.iter().flat_map(|o| &o.findings).filter(|f| matches!(f.verdict, Verdict::Abort(_) | Verdict::Hang)).count() as u64;
        if acc + rej + pan + skipped + aborted != p.count {
            machinery_error(&format!(
                "{}: {} inputs enumerated but {} accounted for (accepted {acc}, rejected {rej}, panicked {pan}, skipped {skipped}, aborted/hung {aborted})",
                e.name,
                p.count,
                acc + rej + pan + skipped + aborted
            ));
        }
        t.states += p.count;
        t.transitions += calls;
        let n_seed = ["seed", "regression", "canary"].iter().map(|c| p.classes.get(c).copied().unwrap_or(0)).sum::<u64>();
        total_seeds += n_seed;
        t.nontrivial += p.count - n_seed;
        t.outcome_n(e.name, "accepted", acc);
        t.outcome_n(e.name, "rejected", rej);
        t.outcome_n(e.name, "panicked", pan);
        t.outcome_n(e.name, "aborted-or-hung", aborted);
        report.require_outcomes(e.name, 2);
        if acc == 0 || rej == 0 {
            // `panicked` must not make a family look exercised
            machinery_error(&format!("{}: accepted {acc}, rejected {rej}: the family never reaches both outcomes (vacuous)", e.name));
        }
        table.insert(
            e.name.to_owned(),
            json!({
                "kind": format!("{:?}", e.kind), "seeds": e.seeds.len(), "regression_inputs": e.regressions.len(), "canaries": e.canaries.len(),
                "inputs": p.count, "input_bytes": p.bytes, "accepted": acc, "rejected": rej, "panicked": pan, "aborted_or_hung": aborted,
                "skipped_after_cap": skipped, "calls": calls, "by_class": p.classes,
            }),
        );
        // findings: one violation per signature, the first (lowest index) input is the replay case
        let mut findings: Vec<&Finding> = outs.iter().flat_map(|o| &o.findings).collect();
        findings.sort_by_key(|f| f.idx);
        for Finding { verdict: v, idx, class, seq_start } in findings {
            let Some(sig) = v.sig(e.name, class) else { continue };
            let fam = e.family();
            let get = || nth_input(&fam, tier, *idx).unwrap_or_else(|| machinery_error("finding for an input that does not exist"));
            report.violation(
                &sig,
                || {
                    let (_, input) = get();
                    format!(
                        "{} input #{idx} ({class}, {} bytes) {}: {}",
                        e.name,
                        input.len(),
                        engine::truncate(&format!("{:?}", String::from_utf8_lossy(&input)), 200),
                        v.detail()
                    )
                },
                || {
                    let (c, input) = get();
                    let mut case = case_json(e.name, c, &input);
                    if matches!(v, Verdict::Stateful(_)) {
                        case["sequence"] = json!({"tier": tier.as_str(), "start": seq_start, "end": idx + 1});
                    }
                    case
                },
            );
        }
        if e.name == "sync_response" || e.name == "user_id" || e.name == "ed25519_key_pair_from_der" || e.name == "sanitize_html" {
            for want in [1u64, p.count / 3, p.count - 1] {
                if let Some((class, input)) = nth_input(&e.family(), tier, want) {
                    t.sample(|| json!({"entry": e.name, "index": want, "class": class, "len": input.len(), "input": engine::truncate(&String::from_utf8_lossy(&input), 160)}));
                }
            }
        }
    }
    report.merge(t);
    report.set("entry_points", Value::Object(table));
    report.set("entry_point_count", json!(n_entries));
    report.set("seed_and_regression_inputs", json!(total_seeds));
    report.set("isolation_reruns", json!(total_isolation));
    report.set("plan_wall_s", json!(t_plan));
    report.set("bounds", json!({
        "max_input_bytes": mutate::MAX_INPUT, "json_nesting": mutate::JSON_NEST_MAX, "html_nesting_elements": mutate::HTML_NEST_MAX_ELEMENTS,
        "json_depths": if tier == Tier::Quick { json!(mutate::json_depths(tier)) } else { json!("1..=256") },
        "byte_position_stride": tier.pick(4, 1), "wall_cap_s": WALL_CAP.as_secs(), "stack_bytes": STACK, "block": block,
    }));
    report.set_rule(&format!(
        "fault enumeration: {n_entries} entry points x 5-15 valid seeds each x EVERY single mutation of a seed: \
         (byte/char level, every {stride} position) delete, duplicate, truncate-here, replace by each of the 12 hostile bytes \
         {:?} + 2 multi-byte characters (text APIs) + up to 9 entry-specific bytes; (length) a run of `a` after every separator \
         bringing the input to 255/256/257/65535/65536/65537 bytes; (JSON structure, every member and element at every depth) delete, \
         duplicate (duplicate key), swap the value for each other JSON type, empty it, replace numbers by {} boundary spellings, \
         nest the value d deep in arrays and in objects for d in {depths}, replace strings by 255/256/257/65535-byte strings \
         (plain and sigil/server-preserving; shortened so that the input stays <= 64 KiB + 1); (HTML) 12 element patterns nested to \
         {hd} elements, closed and unclosed; invalid UTF-8 only where the API takes bytes; earlier findings as regression inputs. \
         Every input runs in a worker process on a 2 MiB thread under catch_unwind with a write-ahead log, 2 s cap per input (CPU time of the worker; 60 s wall backstop), crash / hang \
         confirmed twice in isolation; canaries (2 accepted + 1 truncated input per entry point) are evaluated in a fresh process and \
         again after every rejected or panicking input of the block's sequence. state = one distinct input of an entry point \
         (deduplicated per entry point); transition = one call of an entry-point closure (inputs + canary evaluations + isolation re-runs); \
         non-trivial = distinct inputs that are not a seed, regression or canary input, i.e. distinct mutants actually executed",
        mutate::HOSTILE,
        mutate::NUMBERS.len(),
        stride = tier.pick("4th", "single"),
        depths = tier.pick("{1,127,128,129,256}", "1..=256"),
        hd = tier.pick("{1,2,99,100,101,127,128,255,256,511,512,1023,1024}", "1..=1024"),
    ));
    report.assume("the entry-point closures (mc-nopanic/src/entries.rs) call the ruma API the way a client / homeserver does; an Accepted digest covers the Debug and serialized form of the result plus the accessors called on it");
    report.assume("stack exhaustion is judged on a 2 MiB thread (Rust's default); the per-input cap of 2 s CPU time (60 s wall backstop) stands for `hangs`");
    report.assume("only single mutations of the listed seeds; inputs larger than 64 KiB + 1, JSON nesting beyond 256 and HTML beyond 1024 elements are out of scope");
    report.assume("HTML entry points never reject: `rejected` there means the output differs from the input, and the canaries are re-evaluated after every input");
    let _ = fs::remove_dir_all(&dir);
    report.finish()
}

//! shared helpers for the checks in this crate (C17): the entry points and their seeds
//! (`entries`, `seeds`), the mutation family (`mutate`, `json`).

pub mod entries;
pub mod json;
pub mod mutate;
pub mod seeds;

//! The finite mutation family of C17: every single mutation of every seed of an entry point,
//! generated as a deterministic stream (the supervisor and the workers regenerate the same
//! stream; inputs are addressed by their index in it).
//!
//! Classes (the `class` string passed with every input; it is part of abort / hang signatures):
//!   seed, regression, canary,
//!   byte-delete, byte-duplicate, byte-replace, truncate        (bytes or, for text APIs, chars)
//!   length-ladder, repeat-ladder                               (text / bytes / html inputs)
//!   multibyte-boundary   (a 2-, 3- or 4-byte character straddling byte 16, 32, ... 4096 of a string:
//!                         what truncation, chunking and fixed-size buffers trip over)
//!   json-delete-member, json-duplicate-member, json-type-swap, json-empty-value,
//!   json-number-boundary, json-nest-array, json-nest-object, json-long-string
//!   html-nesting, html-nesting-unclosed

use std::collections::HashSet;

use engine::Tier;
use serde_json::Value;

use crate::json::J;

/// Input size bound: 64 KiB + 1 byte. Nothing larger is generated.
pub const MAX_INPUT: usize = 64 * 1024 + 1;
/// Stated nesting bounds.
pub const JSON_NEST_MAX: usize = 256;
pub const HTML_NEST_MAX_ELEMENTS: usize = 1024;

/// The 12 hostile bytes every position is replaced by.
pub const HOSTILE: [u8; 12] = [0x00, b'\n', b' ', b'"', b'%', b'/', b':', b'<', b'[', b'\\', 0x80, 0xFF];
/// Additional hostile characters for APIs that take `&str` (3- and 4-byte UTF-8 sequences).
pub const HOSTILE_CHARS: [char; 2] = ['\u{2028}', '\u{1F600}'];

/// Boundary spellings of numbers (valid JSON first, then spellings JSON forbids).
pub const NUMBERS: [&str; 34] = [
    "0",
    "-0",
    "-1",
    "1.0",
    "0.0",
    "1.5",
    "1e0",
    "1E0",
    "1e-999",
    "1e308",
    "1e309",
    "1e400",
    "1e999",
    "-1e999",
    "0.1e1000",
    "2147483648",
    "4294967296",
    "9007199254740991",
    "9007199254740992",
    "9007199254740993",
    "-9007199254740991",
    "-9007199254740992",
    "-9007199254740993",
    "9223372036854775807",
    "9223372036854775808",
    "-9223372036854775808",
    "-9223372036854775809",
    "18446744073709551615",
    "18446744073709551616",
    "123456789012345678901234567890",
    // not JSON
    "01",
    "+1",
    "1.",
    "NaN",
];

pub const LENGTH_RUNGS: [usize; 6] = [255, 256, 257, 65_535, 65_536, 65_537];
pub const STRING_RUNGS: [usize; 4] = [255, 256, 257, 65_535];
/// byte offsets a multi-byte character is made to straddle
pub const STRADDLE_AT: [usize; 10] = [8, 16, 32, 64, 128, 255, 256, 512, 1024, 4096];
/// (character, how many of its bytes lie before the offset)
pub const STRADDLERS: [(&str, usize); 4] = [("é", 1), ("€", 1), ("€", 2), ("\u{1F600}", 2)];

/// `a`-runs of `before` bytes followed by a character of which `k` bytes lie before byte `at`
/// (relative to the start of the returned string) and a short tail
fn straddle(at: usize, ch: &str, k: usize) -> Option<String> {
    let fill = at.checked_sub(k)?;
    let mut t = "a".repeat(fill);
    t.push_str(ch);
    t.push_str("aa");
    Some(t)
}

#[derive(Clone, Copy, Debug, PartialEq, Eq)]
pub enum Kind {
    /// a JSON document handed to the API as bytes (`serde_json::from_slice`, HTTP bodies)
    Json,
    /// the API takes `&str`: only valid UTF-8 is generated, mutations are per character
    Text,
    /// the API takes `&[u8]`: invalid UTF-8 is generated
    Bytes,
    /// `&str` holding HTML: as `Text` plus the element nesting ladder
    Html,
}

/// What the generator needs to know about an entry point.
pub struct Family<'a> {
    pub kind: Kind,
    pub seeds: &'a [Vec<u8>],
    /// entry-specific hostile bytes in addition to `HOSTILE`
    pub extra_bytes: &'a [u8],
    /// hand-written inputs (earlier findings), fed as they are
    pub regressions: &'a [Vec<u8>],
    /// the canaries of the entry point are inputs as well (a rejected canary must stay rejected
    /// when it is seen again)
    pub canaries: &'a [Vec<u8>],
}

pub fn json_depths(tier: Tier) -> Vec<usize> {
    match tier {
        Tier::Quick => vec![1, 127, 128, 129, JSON_NEST_MAX],
        Tier::Thorough => (1..=JSON_NEST_MAX).collect(),
    }
}

pub fn html_depths(tier: Tier) -> Vec<usize> {
    match tier {
        Tier::Quick => vec![1, 2, 99, 100, 101, 127, 128, 255, 256, 511, 512, 1023, HTML_NEST_MAX_ELEMENTS],
        Tier::Thorough => (1..=HTML_NEST_MAX_ELEMENTS).collect(),
    }
}

/// (open, close, elements per level)
pub const HTML_NESTERS: [(&str, &str, usize); 12] = [
    ("<div>", "</div>", 1),
    ("<span>", "</span>", 1),
    ("<blockquote>", "</blockquote>", 1),
    ("<b>", "</b>", 1),
    ("<font color=\"#ff0000\">", "</font>", 1),
    ("<ul><li>", "</li></ul>", 2),
    ("<table><tr><td>", "</td></tr></table>", 4),
    ("<mx-reply>", "</mx-reply>", 1),
    ("<x-unknown>", "</x-unknown>", 1),
    ("<a href=\"https://a.example/\">", "</a>", 1),
    ("<svg>", "</svg>", 1),
    ("<details><summary>s</summary>", "</details>", 2),
];

struct Gen<'f> {
    seen: HashSet<u64>,
    idx: u64,
    stopped: bool,
    f: &'f mut dyn FnMut(u64, &'static str, &[u8]) -> bool,
}

pub fn input_hash(b: &[u8]) -> u64 {
    engine::fixed_hash(&b)
}

impl Gen<'_> {
    fn emit(&mut self, class: &'static str, bytes: &[u8]) {
        if self.stopped {
            return;
        }
        if bytes.len() > MAX_INPUT {
            engine::machinery_error(&format!("generator produced a {}-byte input of class {class} (bound {MAX_INPUT})", bytes.len()));
        }
        if !self.seen.insert(input_hash(bytes)) {
            return;
        }
        if !(self.f)(self.idx, class, bytes) {
            self.stopped = true;
        }
        self.idx += 1;
    }
}

/// Calls `f(index, class, input)` for every distinct input of the family, in a fixed order,
/// until `f` returns false. Returns (number of inputs passed to `f`, seeds).
pub fn for_each_input(fam: &Family<'_>, tier: Tier, f: &mut dyn FnMut(u64, &'static str, &[u8]) -> bool) -> u64 {
    let mut g = Gen { seen: HashSet::new(), idx: 0, stopped: false, f };
    for s in fam.seeds {
        g.emit("seed", s);
    }
    for r in fam.regressions {
        g.emit("regression", r);
    }
    for c in fam.canaries {
        g.emit("canary", c);
    }
    let tier_stride = tier.pick(4, 1);
    let mut hostile: Vec<u8> = HOSTILE.to_vec();
    for b in fam.extra_bytes {
        if !hostile.contains(b) {
            hostile.push(*b);
        }
    }
    for (si, seed) in fam.seeds.iter().enumerate() {
        if g.stopped {
            break;
        }
        // short seeds (identifiers, URIs, header values, patterns) get every position in both tiers:
        // the whole point of those parsers is what happens at one particular byte
        let stride = if seed.len() <= 96 { 1 } else { tier_stride };
        let offset = si % stride;
        match fam.kind {
            Kind::Json | Kind::Bytes => byte_level(&mut g, seed, stride, offset, &hostile),
            Kind::Text | Kind::Html => char_level(&mut g, seed, stride, offset, &hostile),
        }
        match fam.kind {
            Kind::Json => json_level(&mut g, seed, tier),
            Kind::Text | Kind::Bytes => {
                length_ladder(&mut g, seed);
                repeat_ladder(&mut g, seed);
                boundary_ladder(&mut g, seed);
            }
            Kind::Html => {
                length_ladder(&mut g, seed);
                boundary_ladder(&mut g, seed);
            }
        }
    }
    if fam.kind == Kind::Html && !g.stopped {
        html_nesting(&mut g, tier);
    }
    g.idx
}

fn byte_level(g: &mut Gen<'_>, seed: &[u8], stride: usize, offset: usize, hostile: &[u8]) {
    let mut v = Vec::with_capacity(seed.len() + 1);
    let mut pos = offset;
    while pos < seed.len() && !g.stopped {
        v.clear();
        v.extend_from_slice(&seed[..pos]);
        v.extend_from_slice(&seed[pos + 1..]);
        g.emit("byte-delete", &v);
        v.clear();
        v.extend_from_slice(&seed[..=pos]);
        v.extend_from_slice(&seed[pos..]);
        g.emit("byte-duplicate", &v);
        for &b in hostile {
            if b != seed[pos] {
                v.clear();
                v.extend_from_slice(seed);
                v[pos] = b;
                g.emit("byte-replace", &v);
            }
        }
        pos += stride;
    }
    // truncation costs one input per position: every position in both tiers
    for pos in 0..seed.len() {
        if g.stopped {
            break;
        }
        g.emit("truncate", &seed[..pos]);
    }
}

fn hostile_chars(hostile: &[u8]) -> Vec<char> {
    let mut out: Vec<char> = hostile.iter().map(|&b| b as char).collect(); // 0x80 -> U+0080, 0xFF -> U+00FF
    out.extend(HOSTILE_CHARS);
    out
}

fn char_level(g: &mut Gen<'_>, seed: &[u8], stride: usize, offset: usize, hostile: &[u8]) {
    let Ok(s) = std::str::from_utf8(seed) else {
        engine::machinery_error("seed of a text entry point is not UTF-8");
    };
    let chars = hostile_chars(hostile);
    let mut v = String::with_capacity(s.len() + 4);
    for (n, (pos, c)) in s.char_indices().enumerate() {
        if g.stopped {
            break;
        }
        if n % stride != offset {
            continue;
        }
        let end = pos + c.len_utf8();
        v.clear();
        v.push_str(&s[..pos]);
        v.push_str(&s[end..]);
        g.emit("byte-delete", v.as_bytes());
        v.clear();
        v.push_str(&s[..end]);
        v.push_str(&s[pos..]);
        g.emit("byte-duplicate", v.as_bytes());
        for &h in &chars {
            if h != c {
                v.clear();
                v.push_str(&s[..pos]);
                v.push(h);
                v.push_str(&s[end..]);
                g.emit("byte-replace", v.as_bytes());
            }
        }
    }
    for (pos, _) in s.char_indices() {
        if g.stopped {
            break;
        }
        g.emit("truncate", s[..pos].as_bytes());
    }
}

/// Insert a run of `a` after every separator so that the whole input has a boundary length.
fn length_ladder(g: &mut Gen<'_>, seed: &[u8]) {
    let mut bounds = vec![0usize];
    for p in 1..seed.len() {
        if seed[p - 1].is_ascii_punctuation() && !bounds.contains(&p) {
            bounds.push(p);
        }
    }
    if !bounds.contains(&seed.len()) {
        bounds.push(seed.len());
    }
    let mut v = Vec::new();
    for &p in &bounds {
        for &total in &LENGTH_RUNGS {
            if g.stopped {
                return;
            }
            if total <= seed.len() {
                continue;
            }
            v.clear();
            v.extend_from_slice(&seed[..p]);
            v.resize(p + (total - seed.len()), b'a');
            v.extend_from_slice(&seed[p..]);
            g.emit("length-ladder", &v);
        }
    }
}

/// Repeat the last 1, 2 or 5 bytes before every separator (and before the end) until the whole
/// input has 8 KiB / 64 KiB: long runs of one token, of one wildcard, of one rejected word — the
/// inputs that expose per-occurrence recursion and size limits of compiled patterns.
fn repeat_ladder(g: &mut Gen<'_>, seed: &[u8]) {
    let mut bounds = vec![];
    for p in 1..=seed.len() {
        if p == seed.len() || seed[p - 1].is_ascii_punctuation() || seed[p - 1].is_ascii_whitespace() {
            bounds.push(p);
        }
    }
    let mut v = Vec::new();
    for &p in &bounds {
        for k in [1usize, 2, 5] {
            if p < k || std::str::from_utf8(&seed[p - k..p]).is_err() {
                continue;
            }
            let chunk = &seed[p - k..p];
            for total in [8 * 1024usize, 64 * 1024] {
                if g.stopped {
                    return;
                }
                v.clear();
                v.extend_from_slice(&seed[..p]);
                while v.len() + chunk.len() + (seed.len() - p) <= total {
                    v.extend_from_slice(chunk);
                }
                v.extend_from_slice(&seed[p..]);
                g.emit("repeat-ladder", &v);
            }
        }
    }
}

fn type_reps() -> [J; 6] {
    [J::Null, J::Bool(true), J::Num("7".into()), J::Str("x".into()), J::Arr(vec![]), J::Obj(vec![])]
}

const MARK: &str = "\u{0}@@HOLE@@\u{0}";

fn json_level(g: &mut Gen<'_>, seed: &[u8], tier: Tier) {
    let Ok(value) = serde_json::from_slice::<Value>(seed) else {
        engine::machinery_error(&format!("seed of a JSON entry point is not JSON: {}", String::from_utf8_lossy(seed)));
    };
    let root = J::from_value(&value);
    let base_len = root.text().len();
    let depths = json_depths(tier);
    let mut buf = String::new();
    for path in root.paths() {
        if g.stopped {
            return;
        }
        let node = root.at(&path);
        if !path.is_empty() {
            g.emit("json-delete-member", root.with_deleted(&path).text().as_bytes());
            g.emit("json-duplicate-member", root.with_duplicated(&path).text().as_bytes());
        }
        // the document with a hole at `path`: every replacement is prefix + new text + suffix
        let marked = root.with_replaced(&path, J::Raw(MARK.to_owned())).text();
        let (pre, suf) = marked.split_once(MARK).expect("marker");
        let mut put = |g: &mut Gen<'_>, class: &'static str, parts: &[&str]| {
            buf.clear();
            buf.push_str(pre);
            for p in parts {
                buf.push_str(p);
            }
            buf.push_str(suf);
            g.emit(class, buf.as_bytes());
        };
        for rep in type_reps() {
            if rep.type_index() != node.type_index() {
                put(g, "json-type-swap", &[&rep.text()]);
            }
        }
        match node {
            J::Str(s) if !s.is_empty() => put(g, "json-empty-value", &["\"\""]),
            J::Arr(a) if !a.is_empty() => put(g, "json-empty-value", &["[]"]),
            J::Obj(o) if !o.is_empty() => put(g, "json-empty-value", &["{}"]),
            _ => {}
        }
        if let J::Num(_) = node {
            for n in NUMBERS {
                put(g, "json-number-boundary", &[n]);
            }
        }
        let text = node.text();
        for &d in &depths {
            put(g, "json-nest-array", &[&"[".repeat(d), &text, &"]".repeat(d)]);
            put(g, "json-nest-object", &[&"{\"a\":".repeat(d), &text, &"}".repeat(d)]);
        }
        if let J::Str(s) = node {
            let escaped_len = text.len() - 2;
            for &n in &STRING_RUNGS {
                // (a) a run of `a`; (b) the original with the run inserted after its first character
                // (keeps the sigil and the server part of identifiers). The 65 535 rung is shortened
                // so that the whole input stays within MAX_INPUT.
                let n_a = n.min(MAX_INPUT - (base_len - escaped_len));
                put(g, "json-long-string", &["\"", &"a".repeat(n_a), "\""]);
                if !s.is_empty() && s.len() < n {
                    let first = s.chars().next().map(char::len_utf8).unwrap_or(0);
                    let fill = (n - s.len()).min(MAX_INPUT - base_len);
                    let mut t = String::with_capacity(s.len() + fill);
                    t.push_str(&s[..first]);
                    for _ in 0..fill {
                        t.push('a');
                    }
                    t.push_str(&s[first..]);
                    put(g, "json-long-string", &[&J::Str(t).text()]);
                }
            }
            for &at in &STRADDLE_AT {
                for (ch, k) in STRADDLERS {
                    if let Some(t) = straddle(at, ch, k) {
                        put(g, "multibyte-boundary", &[&J::Str(t).text()]);
                    }
                }
            }
        }
    }
}

/// Text / byte inputs: the straddling run inserted at the start, after every separator and at the end
/// (offset counted from the insertion point), and placed so that the offset counts from the start of
/// the whole input.
fn boundary_ladder(g: &mut Gen<'_>, seed: &[u8]) {
    let mut bounds = vec![0usize];
    for p in 1..seed.len() {
        if seed[p - 1].is_ascii_punctuation() && !bounds.contains(&p) && std::str::from_utf8(&seed[..p]).is_ok() {
            bounds.push(p);
        }
    }
    if !bounds.contains(&seed.len()) {
        bounds.push(seed.len());
    }
    let mut v = Vec::new();
    for &p in &bounds {
        for &at in &STRADDLE_AT {
            for (ch, k) in STRADDLERS {
                if g.stopped {
                    return;
                }
                for absolute in [false, true] {
                    let at_rel = if absolute {
                        match at.checked_sub(p) {
                            Some(r) if p > 0 => r,
                            _ => continue,
                        }
                    } else {
                        at
                    };
                    let Some(t) = straddle(at_rel, ch, k) else { continue };
                    v.clear();
                    v.extend_from_slice(&seed[..p]);
                    v.extend_from_slice(t.as_bytes());
                    v.extend_from_slice(&seed[p..]);
                    g.emit("multibyte-boundary", &v);
                }
            }
        }
    }
}

fn html_nesting(g: &mut Gen<'_>, tier: Tier) {
    let depths = html_depths(tier);
    let mut v = String::new();
    for (open, close, per_level) in HTML_NESTERS {
        for &elements in &depths {
            if g.stopped {
                return;
            }
            if elements % per_level != 0 {
                continue;
            }
            let d = elements / per_level;
            v.clear();
            for _ in 0..d {
                v.push_str(open);
            }
            v.push('x');
            g.emit("html-nesting-unclosed", v.as_bytes());
            for _ in 0..d {
                v.push_str(close);
            }
            g.emit("html-nesting", v.as_bytes());
        }
    }
}

/// The `idx`-th input of the family (None if the family is shorter).
pub fn nth_input(fam: &Family<'_>, tier: Tier, idx: u64) -> Option<(&'static str, Vec<u8>)> {
    let mut out = None;
    for_each_input(fam, tier, &mut |i, class, b| {
        if i == idx {
            out = Some((class, b.to_vec()));
            false
        } else {
            true
        }
    });
    out
}
